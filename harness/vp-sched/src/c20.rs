//! C20 — waiting senders always wake; dropping the manager stops its workers.
//!
//! Engine E3: stateless, preemption-bounded, exhaustive exploration of the schedules of the REAL
//! `MultiPathManager` (its `path()` / `cached_path()` / `stop_managing_paths()` / drop and the worker
//! task it spawns itself) under a deterministic executor that owns every scheduling decision:
//!
//! * a paused-time current-thread tokio runtime whose `block_on` future IS the explorer;
//! * harness futures are polled manually with own wakers; the worker (spawned by the subject with
//!   `tokio::spawn`) only runs when the explorer yields to the runtime and stops at the next
//!   `verif::yield_point` gate or real await;
//! * the `PathFetcher` is gated: its future stays pending until the explorer completes it;
//! * time moves only through `tokio::time::advance`.
//!
//! A schedule is a sequence of choices among the enabled actions (canonical order: the task that ran
//! last first, then harness tasks, workers, fetch completions, timer advance - ascending ids).
//! Switching away from a task that is still runnable costs one preemption. All schedules with
//! 0, 1, 2, .. preemptions are executed, each to quiescence. Exploration is sharded over single
//! threaded PROCESSES (the yield controller is a process global and `scc`/`sdd` keep per-thread and
//! global epoch state, so one process = one explorer thread).

use std::{
    cell::RefCell,
    collections::{BTreeMap, BTreeSet},
    future::Future,
    pin::Pin,
    rc::Rc,
    sync::{
        Arc, Mutex,
        atomic::{AtomicBool, Ordering},
    },
    task::{Context, Poll, Wake, Waker},
    time::{Duration, Instant, SystemTime},
};

use scion_sdk_utils::backoff::BackoffConfig;
use scion_stack::{
    path::{
        PathStrategy,
        fetcher::traits::{PathFetchError, PathFetcher},
        manager::{MultiPathManager, MultiPathManagerConfig, MultiPathManagerRef, verif_sched_api::HandleProbe},
    },
    verif::{self, YieldController},
};
use sciparse::{
    core::model::Model,
    dataplane_path::{
        standard::{
            model::{HopField, InfoField, Segment, StandardPath},
            types::{HopFieldFlags, HopFieldMac, InfoFieldFlags},
        },
        view::ScionDpPathView,
    },
    identifier::isd_asn::IsdAsn,
    path::{ScionPath, fingerprint::data_plane::DpPathFingerprint},
};
use vpc::{Value, json};

// =============================================================================================
// Controller: yield-point gates + fetch gate
// =============================================================================================

#[derive(Clone, Copy, PartialEq, Eq, PartialOrd, Ord, Debug)]
enum Tid {
    H(u8),
    W(u8),
}
impl Tid {
    fn name(self) -> String {
        match self {
            Tid::H(i) => format!("H{i}"),
            Tid::W(i) => format!("W{i}"),
        }
    }
}

struct Parked {
    label: &'static str,
    waker: Waker,
}

enum FState {
    Waiting(Waker),
    Delivered(u8),
    Done,
    Dropped,
}
struct FetchRec {
    worker: u8,
    state: FState,
}

#[derive(Default)]
struct CtlInner {
    /// harness task currently polled by the explorer (None while the runtime runs workers)
    current: Option<u8>,
    parked: BTreeMap<Tid, Parked>,
    released: BTreeSet<Tid>,
    /// tokio task id -> worker index by first appearance
    workers: Vec<String>,
    fetches: Vec<FetchRec>,
    inflight: usize,
    max_inflight: usize,
    /// activity counter (every controller call)
    polls: u64,
    last_label: BTreeMap<Tid, &'static str>,
}
impl CtlInner {
    fn tid(&mut self) -> Tid {
        if let Some(h) = self.current {
            return Tid::H(h);
        }
        let s = tokio::task::try_id().map(|i| i.to_string()).unwrap_or_else(|| "?".into());
        let idx = match self.workers.iter().position(|w| *w == s) {
            Some(i) => i,
            None => {
                self.workers.push(s);
                self.workers.len() - 1
            }
        };
        Tid::W(idx as u8)
    }
}

#[derive(Default)]
struct Ctl(Mutex<CtlInner>);

impl YieldController for Ctl {
    fn poll_point(&self, label: &'static str, token: &mut u64, cx: &mut Context<'_>) -> Poll<()> {
        let mut g = self.0.lock().unwrap();
        g.polls += 1;
        let id = g.tid();
        if *token == 0 {
            *token = 1;
            g.last_label.insert(id, label);
            g.parked.insert(id, Parked { label, waker: cx.waker().clone() });
            return Poll::Pending;
        }
        if g.released.remove(&id) {
            g.parked.remove(&id);
            *token = 2;
            return Poll::Ready(());
        }
        g.parked.insert(id, Parked { label, waker: cx.waker().clone() });
        Poll::Pending
    }
}

const OUT_OK: u8 = 0;
const OUT_EMPTY: u8 = 1;
const OUT_ERR: u8 = 2;
fn out_name(o: u8) -> &'static str {
    match o {
        OUT_OK => "ok",
        OUT_EMPTY => "empty",
        _ => "err",
    }
}

struct GatedFetcher {
    ctl: Arc<Ctl>,
    now_s: u32,
}
struct FetchFut {
    ctl: Arc<Ctl>,
    idx: Option<usize>,
    src: IsdAsn,
    dst: IsdAsn,
    now_s: u32,
}
impl Future for FetchFut {
    type Output = Result<Vec<ScionPath>, PathFetchError>;
    fn poll(mut self: Pin<&mut Self>, cx: &mut Context<'_>) -> Poll<Self::Output> {
        let ctl = self.ctl.clone();
        let mut g = ctl.0.lock().unwrap();
        g.polls += 1;
        match self.idx {
            None => {
                let worker = match g.tid() {
                    Tid::W(w) => w,
                    Tid::H(_) => 255,
                };
                g.fetches.push(FetchRec { worker, state: FState::Waiting(cx.waker().clone()) });
                g.inflight += 1;
                g.max_inflight = g.max_inflight.max(g.inflight);
                self.idx = Some(g.fetches.len() - 1);
                Poll::Pending
            }
            Some(i) => match g.fetches[i].state {
                FState::Delivered(o) => {
                    g.fetches[i].state = FState::Done;
                    g.inflight -= 1;
                    Poll::Ready(match o {
                        OUT_OK => Ok(vec![mk_path(self.src, self.dst, self.now_s, i)]),
                        OUT_EMPTY => Ok(vec![]),
                        _ => Err(PathFetchError::InternalError("scripted".into())),
                    })
                }
                FState::Waiting(_) => {
                    g.fetches[i].state = FState::Waiting(cx.waker().clone());
                    Poll::Pending
                }
                _ => vpc::machinery_failure("fetch future polled after completion"),
            },
        }
    }
}
impl Drop for FetchFut {
    fn drop(&mut self) {
        if let Some(i) = self.idx {
            let mut g = self.ctl.0.lock().unwrap();
            if matches!(g.fetches[i].state, FState::Waiting(_) | FState::Delivered(_)) {
                g.fetches[i].state = FState::Dropped;
                g.inflight -= 1;
            }
        }
    }
}
impl PathFetcher for GatedFetcher {
    fn fetch_paths(&self, src: IsdAsn, dst: IsdAsn) -> impl Future<Output = Result<Vec<ScionPath>, PathFetchError>> + Send + '_ {
        FetchFut { ctl: self.ctl.clone(), idx: None, src, dst, now_s: self.now_s }
    }
}

/// The path returned by lookup number `k` (its interfaces, hence its fingerprint, depend on `k`).
fn mk_path(src: IsdAsn, dst: IsdAsn, now_s: u32, k: usize) -> ScionPath {
    let hf = |i: u16, e: u16| HopField { flags: HopFieldFlags::empty(), expiration_units: 255, cons_ingress: i, cons_egress: e, mac: HopFieldMac::zero() };
    let x = 10 + k as u16;
    let mut segs = tinyvec::ArrayVec::<[Segment; 3]>::new();
    segs.push(Segment {
        info_field: InfoField { flags: InfoFieldFlags::CONS_DIR, segment_id: 1, timestamp: now_s },
        hop_fields: tinyvec::tiny_vec!([HopField; 12] => hf(0, x), hf(x, 0)),
    });
    let sp = StandardPath { current_info_field: 0, current_hop_field: 0, segments: segs };
    let view = sp.try_encode_to_owned_view().unwrap();
    ScionPath::new(src, dst, ScionDpPathView::Standard(view), None, None)
}

struct FlagWaker(AtomicBool);
impl Wake for FlagWaker {
    fn wake(self: Arc<Self>) {
        self.0.store(true, Ordering::SeqCst);
    }
}

// =============================================================================================
// Drivers
// =============================================================================================

#[derive(Clone, Copy, PartialEq, Eq, Debug)]
enum Kind {
    /// `MultiPathManager::path()` caller (what `path_wait` / `send_to` do)
    Caller,
    /// `stop_managing_paths`
    Stopper,
    /// drops a manager clone (the last one once every other task is done)
    Dropper,
    /// n calls of `cached_path`, one scheduling point between two calls
    Poller(u8),
    /// obtains the pair's handle, drops its manager clone, then waits on the handle only
    HandleWaiter,
}

#[derive(Clone)]
struct Variant {
    driver: &'static str,
    name: String,
    tasks: Vec<Kind>,
    /// outcome of lookup k = outcomes[min(k, len-1)]
    outcomes: Vec<u8>,
    idle0: bool,
    backoff0: bool,
    advances: u8,
    bound: u8,
}

fn variants(tier: vpc::Tier) -> Vec<Variant> {
    use Kind::*;
    let t = tier == vpc::Tier::Thorough;
    let mut v = vec![];
    let mut add = |driver: &'static str, tasks: &[Kind], outs: &[u8], idle0: bool, backoff0: bool, advances: u8, bound: u8| {
        let name = format!("{driver}/{}", outs.iter().map(|o| out_name(*o)).collect::<Vec<_>>().join("+"));
        v.push(Variant { driver, name, tasks: tasks.to_vec(), outcomes: outs.to_vec(), idle0, backoff0, advances, bound });
    };
    // D1: two path() callers + lookup {Ok, empty, Err}
    for o in [OUT_OK, OUT_EMPTY, OUT_ERR] {
        add("D1", &[Caller, Caller, Dropper], &[o], false, false, 1, if t { 3 } else { 2 });
    }
    // D2: path() callers + idle exit (max_idle_period = 0)
    for o in [OUT_OK, OUT_EMPTY, OUT_ERR] {
        add("D2", &[Caller, Caller, Dropper], &[o], true, false, 0, if t { 3 } else { 2 });
    }
    // D3: path() + stop_managing_paths + second path() re-creating the pair
    for o in [OUT_OK, OUT_EMPTY, OUT_ERR] {
        if t || o != OUT_EMPTY {
            add("D3", &[Caller, Stopper, Caller, Dropper], &[o], false, false, 0, if t { 2 } else { 1 });
        }
    }
    // D5: manager dropped while a handle-holding task waits (also in quick: it is the only driver in
    // which the notification on the worker's exit path is what releases a waiter)
    for o in [OUT_OK, OUT_ERR] {
        add("D5", &[HandleWaiter, Dropper], &[o], false, false, 0, if t { 4 } else { 3 });
    }
    if t {
        add("D5c", &[HandleWaiter, Caller, Dropper], &[OUT_OK], false, false, 0, 3);
        // D4: cached_path pollers + path() caller
        for o in [OUT_OK, OUT_EMPTY, OUT_ERR] {
            add("D4", &[Poller(3), Caller, Dropper], &[o], false, false, 0, 3);
        }
        add("D4p", &[Poller(2), Poller(2), Dropper], &[OUT_OK], false, false, 0, 3);
        // D6: refetch (immediate retry after a failed lookup, backoff 0) racing a late caller
        add("D6", &[Caller, Caller, Dropper], &[OUT_ERR, OUT_OK], false, true, 0, 3);
        add("D6", &[Caller, Caller, Dropper], &[OUT_EMPTY, OUT_OK], false, true, 0, 2);
        add("D6", &[Caller, Caller, Dropper], &[OUT_ERR, OUT_EMPTY, OUT_OK], false, true, 0, 2);
    }
    v
}

// =============================================================================================
// One execution
// =============================================================================================

#[derive(Clone, Debug, PartialEq, Eq)]
enum HOut {
    Path(Result<DpPathFingerprint, String>),
    Polls(Vec<Option<DpPathFingerprint>>),
    Handle { path: Option<DpPathFingerprint>, err: Option<String> },
    Unit,
}
type HFut = Pin<Box<dyn Future<Output = HOut>>>;

fn err_class(e: &PathFetchError) -> String {
    match e {
        PathFetchError::NoPathsFound => "nopaths".into(),
        PathFetchError::InternalError(m) if m.as_ref() == "scripted" => "scripted".into(),
        PathFetchError::InternalError(m) => match m.strip_prefix("PathSet task exited: ") {
            Some(r) => format!("exited({})", r.split(',').next().unwrap_or(r)),
            None => format!("internal({m})"),
        },
        o => format!("other({o})"),
    }
}

#[derive(Clone, Copy, PartialEq, Eq, Debug)]
enum Act {
    Step(Tid),
    Fetch(u8),
    Advance,
}
impl Act {
    fn name(self) -> String {
        match self {
            Act::Step(t) => t.name(),
            Act::Fetch(i) => format!("F{i}"),
            Act::Advance => "T".into(),
        }
    }
}

#[derive(Clone, Copy, Debug, PartialEq, Eq)]
struct Point {
    n: u8,
    choice: u8,
    running_enabled: bool,
}

/// What the explorer knows about handle/worker k (the k-th entry created for the pair).
#[derive(Default, Clone)]
struct WState {
    last_outcome: Option<u8>,
    exited: bool,
    finish_count: u32,
    prev_ongoing: bool,
}

#[derive(Clone, Copy, Debug)]
struct Pre {
    init: bool,
    ongoing: bool,
    exited: bool,
    last_outcome: Option<u8>,
    finish_count: u32,
}

struct HState {
    kind: Kind,
    fut: Option<HFut>,
    waker: Arc<FlagWaker>,
    result: Option<HOut>,
    handle: Option<usize>,
    /// (had to wait, finish_count of its handle) when it evaluated the wait condition
    wait_decision: Option<(bool, u32)>,
    final_pre: Option<Pre>,
    /// Poller: cached_path calls made so far / bit k set = call #k had to return a path
    polls_made: u32,
    poll_demand: u32,
    /// still owns a clone of the manager
    holds_mgr: bool,
    /// gates this task was released from, in order (how it got its answer)
    route: Vec<&'static str>,
    /// it polled its notification future and had to block (the wake-up came later)
    blocked: bool,
}

#[derive(Default)]
struct Exec {
    points: Vec<Point>,
    steps: u64,
    signature: String,
    violations: Vec<(String, String)>,
    trace: Vec<String>,
    preemptions: u32,
}

type Registry = Rc<RefCell<Vec<HandleProbe>>>;
fn register(reg: &Registry, h: HandleProbe) -> usize {
    let mut r = reg.borrow_mut();
    if let Some(i) = r.iter().position(|x| x.id() == h.id()) {
        return i;
    }
    r.push(h);
    r.len() - 1
}

fn execute(v: &Variant, prefix: &[(u8, u8)], want_trace: bool) -> Exec {
    let rt = tokio::runtime::Builder::new_current_thread()
        .enable_time()
        .start_paused(true)
        .build()
        .unwrap_or_else(|e| vpc::machinery_failure(&format!("runtime: {e}")));
    let ex = rt.block_on(explore_one(v, prefix, want_trace));
    verif::install(None);
    drop(rt);
    ex
}

async fn settle(ctl: &Arc<Ctl>) {
    let m = tokio::runtime::Handle::current().metrics();
    loop {
        let before = (ctl.0.lock().unwrap().polls, m.num_alive_tasks());
        tokio::task::yield_now().await;
        let after = (ctl.0.lock().unwrap().polls, m.num_alive_tasks());
        if before == after {
            break;
        }
    }
}

async fn explore_one(v: &Variant, prefix: &[(u8, u8)], want_trace: bool) -> Exec {
    let ctl = Arc::new(Ctl::default());
    verif::install(Some(ctl.clone()));
    let metrics = tokio::runtime::Handle::current().metrics();
    let t_start = tokio::time::Instant::now();
    let mut advanced = Duration::ZERO;

    let src: IsdAsn = "1-1".parse().unwrap();
    let dst: IsdAsn = "1-2".parse().unwrap();
    let now = SystemTime::now();
    let now_s = now.duration_since(SystemTime::UNIX_EPOCH).unwrap().as_secs() as u32;
    let fps: Vec<DpPathFingerprint> = (0..8).map(|k| mk_path(src, dst, now_s, k).fingerprint()).collect();
    let fp_name = |fp: &DpPathFingerprint| match fps.iter().position(|f| f == fp) {
        Some(k) => format!("path#{k}"),
        None => "path#?".to_string(),
    };

    let mut cfg = MultiPathManagerConfig::default();
    if v.idle0 {
        cfg = cfg.with_max_idle_period(Duration::ZERO);
    }
    if v.backoff0 {
        cfg = cfg
            .with_min_refetch_delay(Duration::ZERO)
            .verif_with_fetch_failure_backoff(BackoffConfig { minimum_delay_secs: 0.0, maximum_delay_secs: 0.0, factor: 1.0, jitter_secs: 0.0 });
    }
    let mgr = MultiPathManager::new(cfg, GatedFetcher { ctl: ctl.clone(), now_s }, PathStrategy::default())
        .unwrap_or_else(|e| vpc::machinery_failure(&format!("config: {e}")));
    let weak: MultiPathManagerRef<GatedFetcher> = mgr.weak_ref();
    let reg: Registry = Rc::new(RefCell::new(vec![]));
    let my_handle: Vec<Rc<RefCell<Option<usize>>>> = v.tasks.iter().map(|_| Rc::new(RefCell::new(None))).collect();

    let mut hs: Vec<HState> = vec![];
    for (i, kind) in v.tasks.iter().enumerate() {
        let m = mgr.clone();
        let fut: HFut = match *kind {
            Kind::Caller => Box::pin(async move {
                let r = m.path(src, dst, now).await;
                let out = match r {
                    Ok(p) => HOut::Path(Ok(p.fingerprint())),
                    Err(e) => HOut::Path(Err(err_class(&e))),
                };
                drop(m);
                out
            }),
            Kind::Stopper => Box::pin(async move {
                m.stop_managing_paths(src, dst);
                drop(m);
                HOut::Unit
            }),
            Kind::Dropper => Box::pin(async move {
                drop(m);
                HOut::Unit
            }),
            Kind::Poller(n) => Box::pin(async move {
                let mut seen = vec![];
                for k in 0..n {
                    if k > 0 {
                        verif::yield_point("h.poll").await;
                    }
                    seen.push(m.cached_path(src, dst, now).map(|p| p.fingerprint()));
                }
                drop(m);
                HOut::Polls(seen)
            }),
            Kind::HandleWaiter => {
                let reg = reg.clone();
                let mine = my_handle[i].clone();
                Box::pin(async move {
                    let h = m.verif_ensure_handle(src, dst);
                    *mine.borrow_mut() = Some(register(&reg, h.clone()));
                    drop(m);
                    verif::yield_point("h.have_handle").await;
                    let p = h.active_path().await;
                    verif::yield_point("h.after_active").await;
                    let e = h.current_error();
                    HOut::Handle { path: p.map(|p| p.fingerprint()), err: e.map(|e| err_class(&e)) }
                })
            }
        };
        hs.push(HState { kind: *kind, fut: Some(fut), waker: Arc::new(FlagWaker(AtomicBool::new(true))), result: None, handle: None, wait_decision: None, final_pre: None, polls_made: 0, poll_demand: 0, holds_mgr: true, route: vec![], blocked: false });
    }
    drop(mgr); // the explorer itself never keeps the manager alive

    let mut ex = Exec::default();
    let mut ws: Vec<WState> = vec![];
    let mut removals: usize = 0;
    let mut orphans_at_drop: Option<usize> = None;
    let mut adv_left = v.advances;
    let mut last: Option<Tid> = None;
    let viol = |ex: &mut Exec, class: String, what: String| {
        if !ex.violations.iter().any(|(c, _)| *c == class) {
            ex.violations.push((class, what));
        }
    };
    let panic_before = vpc::last_panic_location();

    let peek = |reg: &Registry| -> Option<usize> {
        let m = weak.upgrade()?;
        let h = m.verif_peek_handle(src, dst)?;
        drop(m);
        Some(register(reg, h))
    };

    loop {
        settle(&ctl).await;
        if tokio::time::Instant::now() != t_start + advanced {
            vpc::machinery_failure("the paused clock moved without tokio::time::advance (auto-advance)");
        }
        // ---- bookkeeping on the state reached -------------------------------------------------
        {
            let r = reg.borrow();
            while ws.len() < r.len() {
                ws.push(WState::default());
            }
            for (k, h) in r.iter().enumerate() {
                let (_init, ongoing) = h.flags();
                if ws[k].prev_ongoing && !ongoing {
                    ws[k].finish_count += 1;
                }
                ws[k].prev_ongoing = ongoing;
            }
        }
        let (started, inflight) = {
            let g = ctl.0.lock().unwrap();
            (g.workers.len(), g.inflight)
        };
        if started > 1 + removals {
            viol(&mut ex, "second-worker-without-removal".into(), format!("{started} workers were started for one pair but its entry was removed only {removals} time(s)"));
        }
        if inflight > 1 + removals {
            viol(&mut ex, "concurrent-fetches-without-removal".into(), format!("{inflight} lookups in flight for one pair with {removals} removal(s)"));
        }

        // ---- enabled actions ------------------------------------------------------------------
        let mut acts: Vec<Act> = vec![];
        {
            let g = ctl.0.lock().unwrap();
            for (i, h) in hs.iter().enumerate() {
                if h.fut.is_some() && (h.waker.0.load(Ordering::SeqCst) || g.parked.contains_key(&Tid::H(i as u8))) {
                    // Reduction: dropping a clone while another harness task still owns one is a pure
                    // reference-count decrement, independent of every other step; the schedule in
                    // which the last other owner finishes and the dropper runs right after it reaches
                    // the same state. So the dropper is enabled only once it owns the last clone.
                    if h.kind == Kind::Dropper && hs.iter().enumerate().any(|(j, o)| j != i && o.holds_mgr) {
                        continue;
                    }
                    acts.push(Act::Step(Tid::H(i as u8)));
                }
            }
            let mut parked_w = 0;
            for id in g.parked.keys() {
                if let Tid::W(_) = id {
                    acts.push(Act::Step(*id));
                    parked_w += 1;
                }
            }
            let mut waiting_f = 0;
            for (i, f) in g.fetches.iter().enumerate() {
                if let FState::Waiting(_) = f.state {
                    acts.push(Act::Fetch(i as u8));
                    waiting_f += 1;
                }
            }
            let sleeping = metrics.num_alive_tasks() as i64 - parked_w - waiting_f;
            if adv_left > 0 && sleeping > 0 {
                acts.push(Act::Advance);
            }
        }
        if acts.is_empty() {
            break;
        }
        let mut running_enabled = false;
        if let Some(l) = last {
            if let Some(pos) = acts.iter().position(|a| *a == Act::Step(l)) {
                let a = acts.remove(pos);
                acts.insert(0, a);
                running_enabled = true;
            }
        }
        let step = ex.points.len();
        let choice = if step < prefix.len() {
            let (c, n) = prefix[step];
            if n as usize != acts.len() || c as usize >= acts.len() {
                vpc::machinery_failure(&format!(
                    "replay divergence in {} at step {step}: recorded choice {c} of {n}, now {} enabled {:?}",
                    v.name,
                    acts.len(),
                    acts.iter().map(|a| a.name()).collect::<Vec<_>>()
                ));
            }
            c as usize
        } else {
            0
        };
        if acts.len() > 250 {
            vpc::machinery_failure("too many enabled actions");
        }
        ex.points.push(Point { n: acts.len() as u8, choice: choice as u8, running_enabled });
        if choice != 0 && running_enabled {
            ex.preemptions += 1;
        }
        let act = acts[choice];
        ex.steps += 1;
        if ex.steps > 3000 {
            viol(&mut ex, "schedule-does-not-terminate".into(), "more than 3000 scheduling steps".into());
            break;
        }
        let from_label = match act {
            Act::Step(t) => {
                let g = ctl.0.lock().unwrap();
                match g.parked.get(&t) {
                    Some(p) => p.label,
                    None if g.last_label.contains_key(&t) => "(woken)",
                    None => "start",
                }
            }
            _ => "",
        };

        match act {
            Act::Step(Tid::H(i)) => {
                let iu = i as usize;
                // what this step is about to do, from the gate it is parked at
                match (hs[iu].kind, from_label) {
                    (Kind::Stopper, _) => {
                        if peek(&reg).is_some() {
                            removals += 1;
                        }
                    }
                    (Kind::Dropper, _) => {
                        // workers that are still alive although their entry was removed from the index
                        let indexed = usize::from(peek(&reg).is_some());
                        orphans_at_drop = Some(metrics.num_alive_tasks().saturating_sub(indexed));
                    }
                    (Kind::Caller | Kind::HandleWaiter, "a.before_wait") => {
                        if hs[iu].handle.is_none() {
                            hs[iu].handle = *my_handle[iu].borrow();
                        }
                        if let Some(k) = hs[iu].handle {
                            let (init, ongoing) = reg.borrow()[k].flags();
                            hs[iu].wait_decision = Some((ongoing || !init, ws.get(k).map(|w| w.finish_count).unwrap_or(0)));
                        }
                    }
                    (Kind::Caller | Kind::HandleWaiter, "a.after_wait") => {
                        if let Some(k) = hs[iu].handle {
                            let (init, ongoing) = reg.borrow()[k].flags();
                            let w = ws.get(k).cloned().unwrap_or_default();
                            hs[iu].final_pre = Some(Pre { init, ongoing, exited: w.exited, last_outcome: w.last_outcome, finish_count: w.finish_count });
                        }
                    }
                    _ => {}
                }
                // cached_path: what must it return?
                let mut poll_demand = false;
                if let Kind::Poller(_) = hs[iu].kind {
                    if let Some(k) = peek(&reg) {
                        let (init, ongoing) = reg.borrow()[k].flags();
                        let w = ws.get(k).cloned().unwrap_or_default();
                        poll_demand = init && !ongoing && !w.exited && w.last_outcome == Some(OUT_OK);
                    }
                }
                {
                    let mut g = ctl.0.lock().unwrap();
                    g.current = Some(i);
                    if g.parked.contains_key(&Tid::H(i)) {
                        g.released.insert(Tid::H(i));
                    }
                }
                hs[iu].waker.0.store(false, Ordering::SeqCst);
                let w = Waker::from(hs[iu].waker.clone());
                let mut cx = Context::from_waker(&w);
                let fut = hs[iu].fut.as_mut().unwrap();
                let r = vpc::catch(|| fut.as_mut().poll(&mut cx));
                {
                    let mut g = ctl.0.lock().unwrap();
                    g.current = None;
                }
                match r {
                    Err(msg) => {
                        viol(&mut ex, format!("panic@{}", vpc::last_panic_location()), format!("harness task H{i} ({:?}) panicked inside the subject: {msg}", hs[iu].kind));
                        hs[iu].fut = None;
                        hs[iu].result = Some(HOut::Unit);
                        hs[iu].holds_mgr = false;
                        let mut g = ctl.0.lock().unwrap();
                        g.parked.remove(&Tid::H(i));
                        g.released.remove(&Tid::H(i));
                    }
                    Ok(Poll::Ready(o)) => {
                        hs[iu].fut = None; // drops the task's manager clone, if it still had one
                        hs[iu].result = Some(o);
                        hs[iu].holds_mgr = false;
                    }
                    Ok(Poll::Pending) => {
                        if hs[iu].kind == Kind::HandleWaiter {
                            hs[iu].holds_mgr = false; // dropped right after ensure, in its first step
                        }
                    }
                }
                // which handle does this task hold now?
                match hs[iu].kind {
                    Kind::Caller if from_label == "p.before_ensure" => {
                        hs[iu].handle = peek(&reg);
                        if hs[iu].handle.is_none() {
                            vpc::machinery_failure("caller passed ensure_managed_paths but the pair has no entry");
                        }
                    }
                    Kind::Poller(_) => {
                        let _ = peek(&reg);
                    }
                    Kind::HandleWaiter => hs[iu].handle = *my_handle[iu].borrow(),
                    _ => {}
                }
                hs[iu].route.push(from_label);
                if from_label == "a.registered" && hs[iu].result.is_none() && !ctl.0.lock().unwrap().parked.contains_key(&Tid::H(i)) {
                    hs[iu].blocked = true;
                }
                if let Kind::Poller(_) = hs[iu].kind {
                    // exactly one cached_path call is made per step of a poller
                    if poll_demand {
                        hs[iu].poll_demand |= 1 << hs[iu].polls_made;
                    }
                    hs[iu].polls_made += 1;
                }
                last = Some(Tid::H(i));
            }
            Act::Step(Tid::W(k)) => {
                let ku = k as usize;
                if from_label == "w.exit.decided" && peek(&reg).is_some() {
                    removals += 1; // its stop_managing_paths(src, dst) removes whatever entry is there
                }
                if from_label == "w.exit.after_stop" {
                    while ws.len() <= ku {
                        ws.push(WState::default());
                    }
                    ws[ku].exited = true;
                }
                let w = {
                    let mut g = ctl.0.lock().unwrap();
                    g.released.insert(Tid::W(k));
                    g.parked.get(&Tid::W(k)).map(|p| p.waker.clone())
                };
                if let Some(w) = w {
                    w.wake();
                }
                last = Some(Tid::W(k));
            }
            Act::Fetch(i) => {
                let iu = i as usize;
                let o = v.outcomes[iu.min(v.outcomes.len() - 1)];
                let (w, worker) = {
                    let mut g = ctl.0.lock().unwrap();
                    let worker = g.fetches[iu].worker as usize;
                    let old = std::mem::replace(&mut g.fetches[iu].state, FState::Delivered(o));
                    (if let FState::Waiting(w) = old { Some(w) } else { None }, worker)
                };
                while ws.len() <= worker && worker < 250 {
                    ws.push(WState::default());
                }
                if worker < 250 {
                    ws[worker].last_outcome = Some(o);
                }
                if let Some(w) = w {
                    w.wake();
                }
                last = None;
            }
            Act::Advance => {
                adv_left -= 1;
                let d = Duration::from_secs(3 * 3600);
                tokio::time::advance(d).await;
                advanced += d;
                last = None;
            }
        }
        if want_trace {
            settle(&ctl).await;
            let g = ctl.0.lock().unwrap();
            let to = match act {
                Act::Step(t) => match (g.parked.get(&t), t) {
                    (Some(p), _) => format!("-> {}", p.label),
                    (None, Tid::H(i)) => match &hs[i as usize].result {
                        Some(r) => format!("-> done {}", show_out(r, &fp_name)),
                        None => "-> blocked (awaits notification)".to_string(),
                    },
                    (None, Tid::W(_)) => "-> real await (fetch/select) or finished".to_string(),
                },
                Act::Fetch(i) => format!("lookup #{i} completes with {}", out_name(v.outcomes[(i as usize).min(v.outcomes.len() - 1)])),
                Act::Advance => "clock +3h".to_string(),
            };
            ex.trace.push(format!(
                "{:3}: {:<3} {:<22} {:<40} [choice {} of {}{}] alive_tasks={}",
                step,
                act.name(),
                from_label,
                to,
                choice,
                acts.len(),
                if choice != 0 && running_enabled { ", preemption" } else { "" },
                metrics.num_alive_tasks()
            ));
        }
    }

    // ---- quiescence: oracles ----------------------------------------------------------------
    let alive = metrics.num_alive_tasks();
    let gone = weak.upgrade().is_none();
    let last_labels = ctl.0.lock().unwrap().last_label.clone();
    let mut parts: Vec<String> = vec![];
    for (i, h) in hs.iter().enumerate() {
        let tid = Tid::H(i as u8);
        match &h.result {
            None if h.kind == Kind::Dropper => {
                // never enabled: another task still owns a manager clone (it is stuck, and reported)
                parts.push(format!("H{i}=not-run"));
            }
            None => {
                let at = last_labels.get(&tid).copied().unwrap_or("start");
                viol(
                    &mut ex,
                    format!("lost-wakeup:{:?}-stuck-after-{at}", h.kind).replace(['(', ')'], ""),
                    format!("at quiescence (no runnable task, no lookup in flight) H{i} ({:?}) is still pending; last gate passed: {at}", h.kind),
                );
                parts.push(format!("H{i}=PENDING@{at}"));
            }
            Some(r) => {
                let how = if !matches!(h.kind, Kind::Caller | Kind::HandleWaiter) {
                    ""
                } else if h.route.contains(&"a.registered") {
                    if h.blocked { "/waited:woken-while-blocked" } else { "/waited:notified-before-first-poll" }
                } else if h.route.contains(&"a.before_wait") {
                    "/no-wait:lookup-already-finished"
                } else if h.route.contains(&"p.before_ensure") || h.route.contains(&"h.have_handle") {
                    "/slot-filled-at-arrival"
                } else {
                    "/index-hit"
                };
                parts.push(format!("H{i}={}{how}", show_out(r, &fp_name)));
                let delivered_ok = |fp: &DpPathFingerprint| {
                    let g = ctl.0.lock().unwrap();
                    fps.iter().position(|f| f == fp).is_some_and(|k| k < g.fetches.len() && matches!(g.fetches[k].state, FState::Done) && v.outcomes[k.min(v.outcomes.len() - 1)] == OUT_OK)
                };
                match r {
                    HOut::Path(Ok(fp)) | HOut::Handle { path: Some(fp), .. } => {
                        if !delivered_ok(fp) {
                            viol(&mut ex, "path-not-from-a-completed-lookup".into(), format!("H{i} got {} which no completed successful lookup returned", fp_name(fp)));
                        }
                    }
                    HOut::Polls(ps) => {
                        for fp in ps.iter().flatten() {
                            if !delivered_ok(fp) {
                                viol(&mut ex, "path-not-from-a-completed-lookup".into(), format!("H{i} got {} which no completed successful lookup returned", fp_name(fp)));
                            }
                        }
                        let demanded = h.poll_demand;
                        for (k, p) in ps.iter().enumerate() {
                            if demanded & (1 << k) != 0 && p.is_none() {
                                viol(&mut ex, "cached-path-none-after-successful-lookup".into(), format!("H{i}: cached_path call #{k} returned None although the pair's lookup had finished successfully and its worker was running"));
                            }
                        }
                    }
                    _ => {}
                }
                let failed = matches!(r, HOut::Path(Err(_)) | HOut::Handle { path: None, .. });
                if matches!(h.kind, Kind::Caller | Kind::HandleWaiter) {
                    let shown = show_out(r, &fp_name);
                    if let (Some((must_wait, fc0)), Some(pre)) = (h.wait_decision, h.final_pre) {
                        if must_wait && pre.finish_count == fc0 && !pre.exited {
                            viol(
                                &mut ex,
                                "released-while-lookup-pending".into(),
                                format!("H{i} had to wait (lookup pending or never finished) but read the slot and returned {shown} before any lookup of its pair finished and before its worker exited"),
                            );
                        }
                    }
                    if let (true, Some(pre)) = (failed, h.final_pre) {
                        if pre.init && !pre.ongoing && !pre.exited && pre.last_outcome == Some(OUT_OK) {
                            viol(
                                &mut ex,
                                format!("error-after-successful-lookup:{}", shown.split('(').next().unwrap_or(&shown)),
                                format!("H{i} returned {shown} although the last lookup of its pair had succeeded and was published as finished before the caller's final slot read (worker still running)"),
                            );
                        }
                    }
                }
            }
        }
    }
    let (started, fetch_calls, max_inflight) = {
        let g = ctl.0.lock().unwrap();
        (g.workers.len(), g.fetches.len(), g.max_inflight)
    };
    if !hs.iter().any(|h| h.result.is_none()) {
        if !gone {
            viol(&mut ex, "manager-alive-after-last-clone-dropped".into(), "every harness task finished (all clones dropped) but the manager's inner state is still referenced".into());
        } else {
            if alive != 0 {
                viol(&mut ex, "worker-alive-after-manager-drop".into(), format!("{alive} tokio task(s) still alive at quiescence after the manager was dropped ({started} started)"));
            }
            for (k, h) in reg.borrow().iter().enumerate() {
                let (init, ongoing) = h.flags();
                if h.current_error().is_none() {
                    viol(&mut ex, "handle-without-error-after-manager-drop".into(), format!("handle #{k}: current_error is None after the manager was dropped"));
                }
                if h.has_active() {
                    viol(&mut ex, "handle-with-path-after-manager-drop".into(), format!("handle #{k} still offers an active path after the manager was dropped"));
                }
                if !init || ongoing {
                    viol(&mut ex, "handle-flags-would-block-after-manager-drop".into(), format!("handle #{k}: initialized={init} ongoing={ongoing} after the manager was dropped (a late waiter would block forever)"));
                }
            }
        }
    }
    let herrs: Vec<String> = reg.borrow().iter().map(|h| h.current_error().map(|e| err_class(&e)).unwrap_or_else(|| "-".into())).collect();
    parts.push(format!("workers={started} lookups={fetch_calls} max_inflight={max_inflight} removals={removals} handle_errors=[{}]", herrs.join(",")));
    if adv_left < v.advances {
        parts.push("clock_advanced".into());
    }
    if let Some(o) = orphans_at_drop.filter(|o| *o > 0) {
        parts.push(format!("unindexed_workers_alive_at_drop={o}"));
    }
    if !gone {
        parts.push("manager=ALIVE".into());
    }
    if alive != 0 {
        parts.push(format!("alive_tasks={alive}"));
    }
    let panic_after = vpc::last_panic_location();
    if panic_after != panic_before {
        viol(&mut ex, format!("panic@{panic_after}"), "a task of the subject panicked".into());
    }
    ex.signature = parts.join(" ");
    // tear down: drop whatever is left inside the runtime context
    drop(hs);
    drop(reg);
    ex
}

fn show_out(r: &HOut, fp_name: &dyn Fn(&DpPathFingerprint) -> String) -> String {
    match r {
        HOut::Path(Ok(fp)) => fp_name(fp),
        HOut::Path(Err(e)) => format!("err:{e}"),
        HOut::Polls(v) => format!("polls[{}]", v.iter().map(|p| p.as_ref().map(|f| fp_name(f)).unwrap_or_else(|| "none".into())).collect::<Vec<_>>().join(",")),
        HOut::Handle { path, err } => format!("handle(path={},err={})", path.as_ref().map(|f| fp_name(f)).unwrap_or_else(|| "none".into()), err.clone().unwrap_or_else(|| "-".into())),
        HOut::Unit => "done".into(),
    }
}

// =============================================================================================
// Exploration (one shard)
// =============================================================================================

struct Node {
    prefix: Vec<(u8, u8)>,
    /// number of deviations from the canonical continuation (depth in the exploration tree)
    depth: u8,
}

#[derive(Default, Clone)]
struct LevelStat {
    schedules: u64,
    steps: u64,
    points: u64,
    completed: bool,
}

struct Witness {
    class: String,
    what: String,
    variant: String,
    prefix: Vec<(u8, u8)>,
    preemptions: u32,
    count: u64,
}

/// Tree nodes above this depth are executed by every shard (to find their children) and counted by
/// their owner only; a node at this depth and everything below it belongs to one shard.
const SPLIT_DEPTH: u8 = 2;

fn owner(name: &str, prefix: &[(u8, u8)], nshards: u64) -> u64 {
    let mut b = name.as_bytes().to_vec();
    for (c, n) in prefix {
        b.push(*c);
        b.push(*n);
    }
    vpc::fnv64(&b) % nshards
}

/// Iterative preemption bounding: for k = 0, 1, 2, .. and every driver variant whose bound is at
/// least k, a depth-first walk over ALL schedules with at most k preemptions; the schedules with
/// exactly k preemptions are the new ones of iteration k and are the ones counted and judged.
fn explore_shard(vars: &[Variant], shard: u64, nshards: u64, deadline: Instant) -> Value {
    let t0 = Instant::now();
    let mut witnesses: BTreeMap<String, Witness> = BTreeMap::new();
    let mut selfchecks = 0u64;
    let mut total = 0u64;
    let mut levels: Vec<Vec<LevelStat>> = vars.iter().map(|v| vec![LevelStat::default(); v.bound as usize + 1]).collect();
    let mut sigs: Vec<BTreeMap<String, u64>> = vars.iter().map(|_| BTreeMap::new()).collect();
    let max_bound = vars.iter().map(|v| v.bound).max().unwrap_or(0);
    let mut out_of_time = false;
    'outer: for k in 0..=max_bound {
        for (vi, v) in vars.iter().enumerate() {
            if v.bound < k {
                continue;
            }
            let mut stack = vec![Node { prefix: vec![], depth: 0 }];
            while let Some(node) = stack.pop() {
                if Instant::now() > deadline {
                    out_of_time = true;
                    break 'outer;
                }
                let ex = execute(v, &node.prefix, false);
                let mine = node.depth >= SPLIT_DEPTH || owner(&v.name, &node.prefix, nshards) == shard;
                if mine && ex.preemptions == k as u32 {
                    total += 1;
                    let st = &mut levels[vi][k as usize];
                    st.schedules += 1;
                    st.steps += ex.steps;
                    st.points += (ex.points.len() - node.prefix.len()) as u64;
                    *sigs[vi].entry(ex.signature.clone()).or_default() += 1;
                    for (class, what) in &ex.violations {
                        let full: Vec<(u8, u8)> = ex.points.iter().map(|p| (p.choice, p.n)).collect();
                        let w = witnesses.entry(class.clone()).or_insert_with(|| Witness { class: class.clone(), what: what.clone(), variant: v.name.clone(), prefix: full.clone(), preemptions: ex.preemptions, count: 0 });
                        w.count += 1;
                        if (ex.preemptions, full.len(), &full) < (w.preemptions, w.prefix.len(), &w.prefix) {
                            w.what = what.clone();
                            w.variant = v.name.clone();
                            w.prefix = full;
                            w.preemptions = ex.preemptions;
                        }
                    }
                    // determinism self-check: re-execute every 499th schedule, compare everything
                    if total % 499 == 1 {
                        selfchecks += 1;
                        let again = execute(v, &node.prefix, false);
                        if again.points != ex.points || again.signature != ex.signature || again.violations != ex.violations {
                            vpc::machinery_failure(&format!("non-deterministic replay in {} prefix {:?}: '{}' vs '{}'", v.name, node.prefix, ex.signature, again.signature));
                        }
                    }
                }
                // children: deviate at one later point
                let mut used = 0u8;
                for (i, p) in ex.points.iter().enumerate() {
                    if i >= node.prefix.len() && p.n > 1 {
                        let cost = used + u8::from(p.running_enabled);
                        if cost <= k {
                            for alt in 1..p.n {
                                let mut pre: Vec<(u8, u8)> = ex.points[..i].iter().map(|q| (q.choice, q.n)).collect();
                                pre.push((alt, p.n));
                                let depth = node.depth + 1;
                                if depth == SPLIT_DEPTH && owner(&v.name, &pre, nshards) != shard {
                                    continue;
                                }
                                stack.push(Node { prefix: pre, depth });
                            }
                        }
                    }
                    if p.choice != 0 && p.running_enabled {
                        used += 1;
                    }
                }
            }
            levels[vi][k as usize].completed = true;
        }
    }
    let mut out_vars = serde_json::Map::new();
    for (vi, v) in vars.iter().enumerate() {
        out_vars.insert(
            v.name.clone(),
            json!({
                "levels": levels[vi].iter().map(|l| json!({"schedules": l.schedules, "steps": l.steps, "points": l.points, "completed": l.completed})).collect::<Vec<_>>(),
                "signatures": sigs[vi],
            }),
        );
    }
    json!({
        "shard": shard,
        "variants": out_vars,
        "selfchecks": selfchecks,
        "out_of_time": out_of_time,
        "wall_s": t0.elapsed().as_secs_f64(),
        "violations": witnesses.values().map(|w| json!({
            "class": w.class, "what": w.what, "variant": w.variant, "preemptions": w.preemptions, "count": w.count,
            "prefix": w.prefix.iter().map(|(c, n)| json!([c, n])).collect::<Vec<_>>(),
        })).collect::<Vec<_>>(),
    })
}

// =============================================================================================
// Entry points
// =============================================================================================

fn parse_prefix(v: &Value) -> Vec<(u8, u8)> {
    v.as_array()
        .unwrap_or_else(|| vpc::machinery_failure("witness.prefix must be an array"))
        .iter()
        .map(|e| (e[0].as_u64().unwrap_or(255) as u8, e[1].as_u64().unwrap_or(255) as u8))
        .collect()
}

fn find_variant(name: &str) -> Variant {
    variants(vpc::Tier::Thorough)
        .into_iter()
        .chain(variants(vpc::Tier::Quick))
        .find(|v| v.name == name)
        .unwrap_or_else(|| vpc::machinery_failure(&format!("unknown driver variant {name}")))
}

fn replay(path: &std::path::Path) -> ! {
    let r = vpc::read_replay(path);
    let w = &r["witness"];
    let v = find_variant(w["variant"].as_str().unwrap_or(""));
    let prefix = parse_prefix(&w["prefix"]);
    println!("replay of {} ({} choices), driver variant {}: tasks {:?}, lookup outcomes {:?}", path.display(), prefix.len(), v.name, v.tasks, v.outcomes.iter().map(|o| out_name(*o)).collect::<Vec<_>>());
    let a = execute(&v, &prefix, true);
    let b = execute(&v, &prefix, true);
    for l in &a.trace {
        println!("{l}");
    }
    println!("quiescent after {} steps, {} preemption(s): {}", a.steps, a.preemptions, a.signature);
    if a.trace != b.trace || a.signature != b.signature || a.violations != b.violations {
        vpc::machinery_failure("the two replays of this schedule differ");
    }
    println!("second replay: identical trace and observations");
    for (c, what) in &a.violations {
        println!("VIOLATION-REPRODUCED [{c}] {what}");
    }
    std::process::exit(if a.violations.is_empty() { 0 } else { 1 })
}

pub fn run(args: &vpc::Args) -> ! {
    vpc::quiet_panics();
    if let Some(p) = &args.replay {
        replay(p);
    }
    let get = |k: &str| args.extra.iter().position(|a| a == k).and_then(|i| args.extra.get(i + 1)).cloned();
    let mut vars = variants(args.tier);
    if let Some(only) = get("--only") {
        vars.retain(|v| v.name.starts_with(&only) || v.driver == only);
    }
    if let Some(b) = get("--bound").and_then(|b| b.parse::<u8>().ok()) {
        for v in &mut vars {
            v.bound = b;
        }
    }
    let budget_s: u64 = get("--budget").and_then(|b| b.parse().ok()).unwrap_or(args.tier.pick(55, 20 * 60));

    // ---- child: one shard ------------------------------------------------------------------
    if let Some(s) = get("--shard") {
        let (i, n) = s.split_once('/').unwrap_or_else(|| vpc::machinery_failure("--shard i/n"));
        let (i, n): (u64, u64) = (i.parse().unwrap_or(0), n.parse().unwrap_or(1));
        let res = explore_shard(&vars, i, n, Instant::now() + Duration::from_secs(budget_s));
        println!("RESULT {}", serde_json::to_string(&res).unwrap());
        std::process::exit(0);
    }

    // ---- parent ------------------------------------------------------------------------------
    let run = vpc::Run::new(args);
    let nshards = get("--shards").and_then(|s| s.parse::<usize>().ok()).unwrap_or_else(|| std::thread::available_parallelism().map(|n| n.get()).unwrap_or(4)).max(1);
    let exe = std::env::current_exe().unwrap_or_else(|e| vpc::machinery_failure(&format!("current_exe: {e}")));
    let mut children = vec![];
    for i in 0..nshards {
        let mut c = std::process::Command::new(&exe);
        c.arg("C20").arg("--tier").arg(args.tier.name()).arg("--shard").arg(format!("{i}/{nshards}")).arg("--budget").arg(budget_s.to_string());
        for k in ["--only", "--bound"] {
            if let Some(x) = get(k) {
                c.arg(k).arg(x);
            }
        }
        c.stdout(std::process::Stdio::piped()).stderr(std::process::Stdio::inherit());
        children.push(c.spawn().unwrap_or_else(|e| vpc::machinery_failure(&format!("cannot start shard {i}: {e}"))));
    }
    let mut results: Vec<Value> = vec![];
    for (i, c) in children.into_iter().enumerate() {
        let out = c.wait_with_output().unwrap_or_else(|e| vpc::machinery_failure(&format!("shard {i}: {e}")));
        let text = String::from_utf8_lossy(&out.stdout);
        if !out.status.success() {
            print!("{text}");
            vpc::machinery_failure(&format!("shard {i} exited with {:?}", out.status.code()));
        }
        let line = text.lines().find_map(|l| l.strip_prefix("RESULT ")).unwrap_or_else(|| vpc::machinery_failure(&format!("shard {i} printed no RESULT")));
        results.push(serde_json::from_str(line).unwrap_or_else(|e| vpc::machinery_failure(&format!("shard {i} result: {e}"))));
    }

    // ---- merge -----------------------------------------------------------------------------
    let mut per_variant = serde_json::Map::new();
    let mut per_driver_classes: BTreeMap<String, BTreeSet<String>> = BTreeMap::new();
    let (mut schedules, mut steps, mut points, mut selfchecks) = (0u64, 0u64, 0u64, 0u64);
    let mut all_complete = true;
    let mut by_preemptions: BTreeMap<usize, u64> = BTreeMap::new();
    let mut stopped_but_alive = 0u64;
    for v in &vars {
        let mut levels = vec![LevelStat { completed: true, ..Default::default() }; v.bound as usize + 1];
        let mut sigs: BTreeMap<String, u64> = BTreeMap::new();
        for r in &results {
            let rv = &r["variants"][&v.name];
            for (l, st) in levels.iter_mut().enumerate() {
                let x = &rv["levels"][l];
                st.schedules += x["schedules"].as_u64().unwrap_or(0);
                st.steps += x["steps"].as_u64().unwrap_or(0);
                st.points += x["points"].as_u64().unwrap_or(0);
                st.completed &= x["completed"].as_bool().unwrap_or(false);
            }
            if let Some(m) = rv["signatures"].as_object() {
                for (k, n) in m {
                    *sigs.entry(k.clone()).or_default() += n.as_u64().unwrap_or(0);
                }
            }
        }
        let completed_bound = levels.iter().take_while(|l| l.completed).count() as i64 - 1;
        if completed_bound < v.bound as i64 {
            all_complete = false;
        }
        for (l, st) in levels.iter().enumerate() {
            schedules += st.schedules;
            steps += st.steps;
            points += st.points;
            *by_preemptions.entry(l).or_default() += st.schedules;
        }
        for (s, n) in &sigs {
            if s.contains("unindexed_workers_alive_at_drop") {
                stopped_but_alive += *n;
            }
            // evidence listing: what every task got and how; worker/handle details stay in the counts
            let coarse = s.split(" max_inflight=").next().unwrap_or(s);
            run.outcome_n(&format!("{}: {coarse}", v.name), *n);
            per_driver_classes.entry(v.driver.to_string()).or_default().insert(format!("{}|{s}", v.outcomes.iter().map(|o| out_name(*o)).collect::<Vec<_>>().join("+")));
        }
        per_variant.insert(
            v.name.clone(),
            json!({
                "tasks": v.tasks.iter().map(|k| format!("{k:?}")).collect::<Vec<_>>(),
                "lookup_outcomes": v.outcomes.iter().map(|o| out_name(*o)).collect::<Vec<_>>(),
                "preemption_bound_requested": v.bound,
                "preemption_bound_completed": completed_bound,
                "schedules_by_preemptions": levels.iter().map(|l| l.schedules).collect::<Vec<_>>(),
                "distinct_outcome_classes": sigs.len(),
            }),
        );
    }
    for r in &results {
        selfchecks += r["selfchecks"].as_u64().unwrap_or(0);
    }

    // ---- violations: minimal witness per class, replayed twice -------------------------------
    let mut best: BTreeMap<String, (u32, usize, Value, u64)> = BTreeMap::new();
    for r in &results {
        for w in r["violations"].as_array().cloned().unwrap_or_default() {
            let class = w["class"].as_str().unwrap_or("?").to_string();
            let key = (w["preemptions"].as_u64().unwrap_or(0) as u32, w["prefix"].as_array().map(|a| a.len()).unwrap_or(0));
            let cnt = w["count"].as_u64().unwrap_or(1);
            match best.get_mut(&class) {
                Some(b) => {
                    b.3 += cnt;
                    if key < (b.0, b.1) || (key == (b.0, b.1) && w["prefix"].to_string() < b.2["prefix"].to_string()) {
                        b.0 = key.0;
                        b.1 = key.1;
                        b.2 = w;
                    }
                }
                None => {
                    best.insert(class, (key.0, key.1, w, cnt));
                }
            }
        }
    }
    for (class, (pre, _len, w, cnt)) in &best {
        let v = find_variant(w["variant"].as_str().unwrap_or(""));
        let prefix = parse_prefix(&w["prefix"]);
        let a = execute(&v, &prefix, true);
        let b = execute(&v, &prefix, true);
        if a.trace != b.trace || a.signature != b.signature || a.violations != b.violations {
            vpc::machinery_failure(&format!("witness of {class} does not replay deterministically"));
        }
        let Some((_, what)) = a.violations.iter().find(|(c, _)| c == class) else {
            vpc::machinery_failure(&format!("witness of {class} does not reproduce in the parent process"));
        };
        run.violation(
            class,
            &format!("{what} [{}; {pre} preemption(s); {cnt} violating schedule(s) of this class]", v.name),
            json!({"variant": v.name, "prefix": w["prefix"], "preemptions": pre, "quiescent_state": a.signature, "trace": a.trace}),
        );
    }

    // ---- determinism demonstration on a fixed schedule --------------------------------------
    let demo = {
        let v = &vars[0];
        let root = execute(v, &[], false);
        // first schedule that deviates at the third choice point with an alternative
        let mut pre: Vec<(u8, u8)> = vec![];
        for p in &root.points {
            if p.n > 1 && pre.len() >= 2 {
                pre.push((1, p.n));
                break;
            }
            pre.push((p.choice, p.n));
        }
        let a = execute(v, &pre, true);
        let b = execute(v, &pre, true);
        if a.trace != b.trace || a.signature != b.signature || a.points != b.points {
            vpc::machinery_failure("determinism demonstration failed: two replays of one schedule differ");
        }
        run.sample(3, || json!({"variant": v.name, "prefix": pre.iter().map(|(c, n)| json!([c, n])).collect::<Vec<_>>(), "trace": a.trace, "quiescent_state": a.signature}));
        json!({"variant": v.name, "steps": a.steps, "replayed_twice_identical": true})
    };

    let classes_json: BTreeMap<String, usize> = per_driver_classes.iter().map(|(k, v)| (k.clone(), v.len())).collect();
    let max_classes = classes_json.values().copied().max().unwrap_or(0);
    if max_classes <= 1 {
        vpc::machinery_failure("every schedule of every driver produced the same outcome: nothing collided, the exploration is vacuous");
    }
    let bound_text = vars
        .iter()
        .map(|v| format!("{} <= {}", v.name, per_variant[&v.name]["preemption_bound_completed"]))
        .collect::<Vec<_>>()
        .join(", ");
    run.finish(
        "model_checking",
        json!({
            "states": points,
            "states_are": "schedule points visited = distinct schedule prefixes at which the set of enabled actions was computed (nodes of the unfolded execution tree); distinct quiescent outcome signatures are listed per driver",
            "transitions": steps,
            "traces_validated_against_impl": schedules,
            "exhaustive": all_complete,
            "bound": format!("all schedules (choices: task to step at yield-point granularity, lookup completion, timer advance, stop, drop) with at most k preemptions, each run to quiescence, completed per driver variant: {bound_text}"),
            "schedules_by_preemption_count": by_preemptions,
            "distinct_outcome_classes_per_driver": classes_json,
            "drivers": per_variant,
            "observation_outside_the_property": {
                "schedules_in_which_a_worker_outlived_stop_managing_paths_until_the_manager_was_dropped": stopped_but_alive,
                "note": "stop_managing_paths() removes the index entry, but scc::HashIndex only marks it removed; PathSetTask::drop (cancel) does not run before the manager is dropped (or the bucket is reused after an epoch change), so the stopped worker keeps running and, when it exits later, its own stop_managing_paths(src,dst) removes whatever newer entry exists for the pair. C20 states no requirement for stop, so this is recorded, not judged."
            },
            "determinism": {"periodic_re_executions_identical": selfchecks, "demonstration": demo},
            "shards": nshards,
            "shard_wall_s": results.iter().map(|r| (r["wall_s"].as_f64().unwrap_or(0.0) * 10.0).round() / 10.0).collect::<Vec<_>>(),
        }),
        &[
            "scheduling granularity = awaits + the verif::yield_point gates placed between the statements that touch shared state (outside mutex scopes); interleavings inside one poll on a multi-threaded runtime (breaking one critical section in two, entry_sync vs check-then-insert) are not reached",
            "tokio's runtime, Notify, CancellationToken, arc_swap and scc::HashIndex are trusted; scc reclaims removed entries lazily, within one execution that never happens, so PathSetTask::drop after stop_managing_paths runs only when the manager is dropped",
            "wall clock (SystemTime::now inside the worker) does not advance measurably during one execution; idle expiry is modelled with max_idle_period = 0, the retry after a failed lookup with a zero backoff (hook)",
            "one (src,dst) pair, at most two concurrent path()/cached_path callers plus stop/drop tasks per driver",
        ],
    )
}
