//! R-seg: beaconing reference. Produces, for a [`Topo`], every path segment SCION beaconing can
//! create, as plain data with R-mac hop MACs. Depends on no crate of /repo.
//!
//! PUBLIC API (stable):
//!   `beacon(topo, base_ts) -> RSegs { up_down, core }`
//!   `RSegment { kind, ordinal, timestamp, seg_id, entries: Vec<REntry> }`  (entries in CONSTRUCTION direction)
//!   `REntry { as_idx, next, cons_ingress, cons_egress, exp_time, beta, mac, as_mtu, ingress_mtu,
//!             ingress_link, egress_link, peers: Vec<RPeer> }`
//!   `RPeer { peer_as, peer_if, local_if, cons_egress, exp_time, mac, link_mtu, link }`
//!   `RSegment::{first_as, last_as, as_list, beta_at(i)}`, `RSegs::plan_sets(topo, src, dst)`,
//!   `expiry_secs(timestamp, exp_time)`, `restamp(topo, seg, new_timestamp)` (same walk / SegID /
//!   ExpTimes, MACs recomputed for the new timestamp).
//!
//! Rules (SCION control-plane specification, scionproto `beaconing` / `seg/extender.go`):
//!   * intra-ISD beaconing: every loop-free walk core -> ... -> X along parent->child links gives one
//!     segment per walk prefix of >= 2 ASes (the segment registered by the AS where the prefix ends;
//!     its last entry has ConsEgress 0). Parallel links give distinct walks. The same segment serves
//!     as up-segment (leaf = source) and as down-segment (leaf = destination).
//!   * core beaconing: every loop-free walk between two distinct core ASes along core links gives one
//!     core segment (origin first).
//!   * entry i carries: ConsIngress (0 for the origin), ConsEgress (0 for the last), ExpTime,
//!     MAC_i = R-mac(key_i, beta_i, ts, exp, in, eg), beta_0 = SegID, beta_{i+1} = beta_i ^ MAC_i[0..2];
//!     AS-internal MTU; ingress MTU = MTU of the ingress link (0 for the origin).
//!   * every non-core entry carries one PEER entry per peering link of that AS: (peer AS, peer
//!     interface, hop field with ConsIngress = local peering interface, ConsEgress = the entry's
//!     ConsEgress, own ExpTime, MAC computed with beta_{i+1}), peer MTU = MTU of the peering link.
//!   * deterministic distinct timestamps / SegIDs per segment (`ordinal` = index over up_down then
//!     core): `timestamp = base_ts + 17 * ordinal`, `seg_id = ordinal * 0x9E37 + 0x0101 (mod 2^16)`;
//!     ExpTime distinct per hop inside a segment and different across segments:
//!     regular hop `20 + (ordinal * 5 + i * 11) % 160`, peer hop `+ 1 + peer position` on top.
use crate::{
    refmac,
    reftopo::{AsIdx, LinkKind, NeighbourRole, Topo},
};

#[derive(Clone, Copy, Debug, PartialEq, Eq, PartialOrd, Ord, Hash)]
pub enum SegKind {
    /// intra-ISD segment (usable as up- or down-segment)
    UpDown,
    Core,
}

#[derive(Clone, Debug, PartialEq, Eq)]
pub struct RPeer {
    pub peer_as: AsIdx,
    /// interface id of the peering link at the peer AS
    pub peer_if: u16,
    /// interface id of the peering link at the local AS (= ConsIngress of the peer hop field)
    pub local_if: u16,
    /// ConsEgress of the peer hop field (= ConsEgress of the AS entry)
    pub cons_egress: u16,
    pub exp_time: u8,
    pub mac: [u8; 6],
    pub link_mtu: u16,
    /// index into `topo.links`
    pub link: usize,
}

#[derive(Clone, Debug, PartialEq, Eq)]
pub struct REntry {
    pub as_idx: AsIdx,
    /// next AS in construction direction (None for the last entry)
    pub next: Option<AsIdx>,
    pub cons_ingress: u16,
    pub cons_egress: u16,
    pub exp_time: u8,
    /// beta_i, the accumulator value this hop's MAC was computed with
    pub beta: u16,
    pub mac: [u8; 6],
    pub as_mtu: u16,
    /// MTU of the ingress link, 0 for the origin entry
    pub ingress_mtu: u16,
    pub ingress_link: Option<usize>,
    pub egress_link: Option<usize>,
    pub peers: Vec<RPeer>,
}

#[derive(Clone, Debug, PartialEq, Eq)]
pub struct RSegment {
    pub kind: SegKind,
    /// position in `up_down ++ core`; timestamps, SegIDs and ExpTimes derive from it
    pub ordinal: usize,
    pub timestamp: u32,
    pub seg_id: u16,
    pub entries: Vec<REntry>,
}

impl RSegment {
    pub fn first_as(&self) -> AsIdx {
        self.entries[0].as_idx
    }
    pub fn last_as(&self) -> AsIdx {
        self.entries[self.entries.len() - 1].as_idx
    }
    pub fn as_list(&self) -> Vec<AsIdx> {
        self.entries.iter().map(|e| e.as_idx).collect()
    }
    /// beta_i for i in 0..=len (beta_len = accumulator after the last hop).
    pub fn beta_at(&self, i: usize) -> u16 {
        let mut b = self.seg_id;
        for e in &self.entries[..i] {
            b = refmac::beta_step(b, &e.mac);
        }
        b
    }
}

#[derive(Clone, Debug, Default, PartialEq, Eq)]
pub struct RSegs {
    pub up_down: Vec<RSegment>,
    pub core: Vec<RSegment>,
}

/// Absolute expiry of a hop field: `timestamp + (1 + ExpTime) * 24h/256` (337.5 s), whole seconds.
pub fn expiry_secs(timestamp: u32, exp_time: u8) -> u32 {
    timestamp.saturating_add(((exp_time as u32 + 1) * 675) / 2)
}

fn exp_regular(ordinal: usize, i: usize) -> u8 {
    (20 + (ordinal * 5 + i * 11) % 160) as u8
}

/// The same segment re-beaconed at another time: identical walk, SegID and ExpTimes, new timestamp,
/// MACs recomputed.
pub fn restamp(topo: &Topo, seg: &RSegment, timestamp: u32) -> RSegment {
    let walk: Vec<(AsIdx, Option<usize>)> = seg.entries.iter().map(|e| (e.as_idx, e.ingress_link)).collect();
    build_at(topo, seg.kind, seg.ordinal, timestamp, &walk)
}

/// Build a segment from a walk given as (AS, ingress link or None) steps.
fn build(topo: &Topo, kind: SegKind, ordinal: usize, base_ts: u32, walk: &[(AsIdx, Option<usize>)]) -> RSegment {
    build_at(topo, kind, ordinal, base_ts.wrapping_add(17 * ordinal as u32), walk)
}

fn build_at(topo: &Topo, kind: SegKind, ordinal: usize, timestamp: u32, walk: &[(AsIdx, Option<usize>)]) -> RSegment {
    let seg_id = (ordinal as u16).wrapping_mul(0x9E37).wrapping_add(0x0101);
    let mut entries = vec![];
    let mut beta = seg_id;
    for (i, &(a, in_link)) in walk.iter().enumerate() {
        let node = &topo.ases[a];
        let if_at = |li: usize| {
            let l = &topo.links[li];
            // a link never connects an AS with itself (Topo::validate)
            if l.a == a { l.a_if } else { l.b_if }
        };
        let cons_ingress = in_link.map(if_at).unwrap_or(0);
        let out_link = walk.get(i + 1).and_then(|n| n.1);
        let cons_egress = out_link.map(if_at).unwrap_or(0);
        let exp_time = exp_regular(ordinal, i);
        let mac = refmac::hop_mac(&node.key, beta, timestamp, exp_time, cons_ingress, cons_egress);
        let beta_next = refmac::beta_step(beta, &mac);
        let mut peers = vec![];
        if kind == SegKind::UpDown && !node.core {
            let mut pos = 0usize;
            for (ifid, n, nif, role, li) in topo.interfaces(a) {
                if role != NeighbourRole::Peer {
                    continue;
                }
                let pexp = exp_time.wrapping_add(1 + pos as u8);
                let pmac = refmac::hop_mac(&node.key, beta_next, timestamp, pexp, ifid, cons_egress);
                peers.push(RPeer { peer_as: n, peer_if: nif, local_if: ifid, cons_egress, exp_time: pexp, mac: pmac, link_mtu: topo.links[li].mtu, link: li });
                pos += 1;
            }
        }
        entries.push(REntry {
            as_idx: a,
            next: walk.get(i + 1).map(|n| n.0),
            cons_ingress,
            cons_egress,
            exp_time,
            beta,
            mac,
            as_mtu: node.mtu,
            ingress_mtu: in_link.map(|li| topo.links[li].mtu).unwrap_or(0),
            ingress_link: in_link,
            egress_link: out_link,
            peers,
        });
        beta = beta_next;
    }
    RSegment { kind, ordinal, timestamp, seg_id, entries }
}

fn walks(topo: &Topo, kind: LinkKind, walk: &mut Vec<(AsIdx, Option<usize>)>, out: &mut Vec<Vec<(AsIdx, Option<usize>)>>) {
    let cur = walk[walk.len() - 1].0;
    for (li, l) in topo.links.iter().enumerate() {
        if l.kind != kind {
            continue;
        }
        let next = match kind {
            LinkKind::ParentChild if l.a == cur => l.b, // parent -> child only
            LinkKind::Core if l.a == cur => l.b,
            LinkKind::Core if l.b == cur => l.a,
            _ => continue,
        };
        if walk.iter().any(|w| w.0 == next) {
            continue; // loop-free
        }
        walk.push((next, Some(li)));
        out.push(walk.clone());
        walks(topo, kind, walk, out);
        walk.pop();
    }
}

/// All segments beaconing produces on `topo`. Deterministic order: origins in AS index order,
/// walks in depth-first link order.
pub fn beacon(topo: &Topo, base_ts: u32) -> RSegs {
    let mut segs = RSegs::default();
    let mut ordinal = 0usize;
    for (kind, lk) in [(SegKind::UpDown, LinkKind::ParentChild), (SegKind::Core, LinkKind::Core)] {
        for (c, node) in topo.ases.iter().enumerate() {
            if !node.core {
                continue;
            }
            let mut all = vec![];
            walks(topo, lk, &mut vec![(c, None)], &mut all);
            for w in all {
                let s = build(topo, kind, ordinal, base_ts, &w);
                ordinal += 1;
                match kind {
                    SegKind::UpDown => segs.up_down.push(s),
                    SegKind::Core => segs.core.push(s),
                }
            }
        }
    }
    segs
}

/// The segment sets a SCION segment lookup returns for (src, dst), by index into
/// `up_down` / `core` / `up_down`.
#[derive(Clone, Debug, Default, PartialEq, Eq)]
pub struct PlanSets {
    /// up segments: leaf (last entry) = src; empty when src is a core AS
    pub up: Vec<usize>,
    /// core segments joining a core the source side can reach with a core the destination side can
    /// reach. `core` holds the segments in the direction a SCION core-segment lookup returns them
    /// (origin on the DESTINATION side, last entry on the SOURCE side); `core_rev` the same walks
    /// beaconed the other way round (origin on the source side).
    pub core: Vec<usize>,
    pub core_rev: Vec<usize>,
    /// down segments: leaf = dst; empty when dst is a core AS
    pub down: Vec<usize>,
}

impl RSegs {
    /// Lookup-plan sets: up = all segments ending at a non-core `src`; down = all ending at a non-core
    /// `dst`; core = all core segments between {src if core, else the cores of src's ISD} and
    /// {dst if core, else the cores of dst's ISD}.
    pub fn plan_sets(&self, topo: &Topo, src: AsIdx, dst: AsIdx) -> PlanSets {
        let mut p = PlanSets::default();
        let side = |x: AsIdx| -> Vec<AsIdx> {
            if topo.ases[x].core {
                vec![x]
            } else {
                (0..topo.ases.len()).filter(|&c| topo.ases[c].core && topo.ases[c].isd == topo.ases[x].isd).collect()
            }
        };
        let (s_side, d_side) = (side(src), side(dst));
        if !topo.ases[src].core {
            p.up = (0..self.up_down.len()).filter(|&i| self.up_down[i].last_as() == src).collect();
        }
        if !topo.ases[dst].core {
            p.down = (0..self.up_down.len()).filter(|&i| self.up_down[i].last_as() == dst).collect();
        }
        for (i, c) in self.core.iter().enumerate() {
            if d_side.contains(&c.first_as()) && s_side.contains(&c.last_as()) {
                p.core.push(i);
            }
            if s_side.contains(&c.first_as()) && d_side.contains(&c.last_as()) {
                p.core_rev.push(i);
            }
        }
        p
    }
}

#[cfg(test)]
mod tests {
    use super::*;
    use crate::reftopo_enum;
    #[test]
    fn beacon_sanity() {
        for t in reftopo_enum::curated().iter().chain(reftopo_enum::enumerate(4, 2).iter()) {
            let s = beacon(t, 1_700_000_000);
            for seg in s.up_down.iter().chain(s.core.iter()) {
                assert!(seg.entries.len() >= 2);
                assert_eq!(seg.entries[0].cons_ingress, 0);
                assert_eq!(seg.entries.last().unwrap().cons_egress, 0);
                assert!(t.ases[seg.first_as()].core);
                // chaining
                for (i, e) in seg.entries.iter().enumerate() {
                    assert_eq!(seg.beta_at(i), e.beta);
                    if i > 0 {
                        let (n, nif, _, li) = t.neighbour(e.as_idx, e.cons_ingress).unwrap();
                        assert_eq!(n, seg.entries[i - 1].as_idx);
                        assert_eq!(nif, seg.entries[i - 1].cons_egress);
                        assert_eq!(Some(li), e.ingress_link);
                    }
                }
            }
            // every non-core AS has at least one segment
            for (i, a) in t.ases.iter().enumerate() {
                if !a.core {
                    assert!(s.up_down.iter().any(|x| x.last_as() == i), "{} AS {i}", t.name);
                }
            }
        }
    }
}
