//! R-wire: an independent reader/writer of the SCION header format, working on plain byte
//! offsets. Written from the SCION dataplane specification (draft-dekater-scion-dataplane,
//! scionproto `slayers`), not from sciparse's layout tables.
//!
//! Common header (12 B): Version(4)|TC(8)|FlowID(20) ; NextHdr(8) HdrLen(8, x4 bytes) PayloadLen(16) ;
//! PathType(8) DT(2)DL(2)ST(2)SL(2) RSV(16).
//! Address header: DstISD(16) DstAS(48) SrcISD(16) SrcAS(48) DstHost((DL+1)*4) SrcHost((SL+1)*4).
//! Path type 1: PathMeta(4) = CurrINF(2)|CurrHF(6)|RSV(6)|Seg0(6)|Seg1(6)|Seg2(6); info fields 8 B
//! (flags, rsv, SegID(16), Timestamp(32)); hop fields 12 B (flags, ExpTime, ConsIngress(16),
//! ConsEgress(16), MAC(48)). Path type 2 (one-hop): info + 2 hop fields. Path type 0: empty.

pub const PT_EMPTY: u8 = 0;
pub const PT_SCION: u8 = 1;
pub const PT_ONEHOP: u8 = 2;
pub const PROTO_UDP: u8 = 17;
pub const PROTO_SCMP: u8 = 202;

#[derive(Clone, Debug, PartialEq, Eq)]
pub struct RInfo {
    pub flags: u8,
    pub rsv: u8,
    pub seg_id: u16,
    pub timestamp: u32,
}
impl RInfo {
    pub fn cons_dir(&self) -> bool {
        self.flags & 1 != 0
    }
    pub fn peering(&self) -> bool {
        self.flags & 2 != 0
    }
}
#[derive(Clone, Debug, PartialEq, Eq)]
pub struct RHop {
    pub flags: u8,
    pub exp_time: u8,
    pub cons_ingress: u16,
    pub cons_egress: u16,
    pub mac: [u8; 6],
}
impl RHop {
    pub fn to_bytes(&self) -> [u8; 12] {
        let mut b = [0u8; 12];
        b[0] = self.flags;
        b[1] = self.exp_time;
        b[2..4].copy_from_slice(&self.cons_ingress.to_be_bytes());
        b[4..6].copy_from_slice(&self.cons_egress.to_be_bytes());
        b[6..12].copy_from_slice(&self.mac);
        b
    }
    pub fn from_bytes(b: &[u8]) -> RHop {
        RHop { flags: b[0], exp_time: b[1], cons_ingress: u16::from_be_bytes([b[2], b[3]]), cons_egress: u16::from_be_bytes([b[4], b[5]]), mac: b[6..12].try_into().unwrap() }
    }
}
impl RInfo {
    pub fn to_bytes(&self) -> [u8; 8] {
        let mut b = [0u8; 8];
        b[0] = self.flags;
        b[1] = self.rsv;
        b[2..4].copy_from_slice(&self.seg_id.to_be_bytes());
        b[4..8].copy_from_slice(&self.timestamp.to_be_bytes());
        b
    }
    pub fn from_bytes(b: &[u8]) -> RInfo {
        RInfo { flags: b[0], rsv: b[1], seg_id: u16::from_be_bytes([b[2], b[3]]), timestamp: u32::from_be_bytes([b[4], b[5], b[6], b[7]]) }
    }
}

/// A standard (type 1) path as the specification describes it.
#[derive(Clone, Debug, PartialEq, Eq)]
pub struct RStdPath {
    pub curr_inf: u8,
    pub curr_hf: u8,
    pub rsv: u8,
    pub seg_len: [u8; 3],
    pub infos: Vec<RInfo>,
    pub hops: Vec<RHop>,
}
impl RStdPath {
    pub fn num_inf(&self) -> usize {
        // number of info fields = number of leading non-zero segment lengths (spec: Seg1Len>0 implies Seg0Len>0 ...)
        if self.seg_len[0] == 0 {
            0
        } else if self.seg_len[1] == 0 {
            1
        } else if self.seg_len[2] == 0 {
            2
        } else {
            3
        }
    }
    pub fn to_bytes(&self) -> Vec<u8> {
        let meta: u32 = ((self.curr_inf as u32 & 3) << 30) | ((self.curr_hf as u32 & 63) << 24) | ((self.rsv as u32 & 63) << 18) | ((self.seg_len[0] as u32 & 63) << 12) | ((self.seg_len[1] as u32 & 63) << 6) | (self.seg_len[2] as u32 & 63);
        let mut v = meta.to_be_bytes().to_vec();
        for i in &self.infos {
            v.extend_from_slice(&i.to_bytes());
        }
        for h in &self.hops {
            v.extend_from_slice(&h.to_bytes());
        }
        v
    }
    /// Strict spec parse of exactly `b` (no trailing bytes).
    pub fn parse(b: &[u8]) -> Result<RStdPath, &'static str> {
        if b.len() < 4 {
            return Err("short-meta");
        }
        let meta = u32::from_be_bytes([b[0], b[1], b[2], b[3]]);
        let p = RStdPath {
            curr_inf: (meta >> 30) as u8 & 3,
            curr_hf: (meta >> 24) as u8 & 63,
            rsv: (meta >> 18) as u8 & 63,
            seg_len: [(meta >> 12) as u8 & 63, (meta >> 6) as u8 & 63, meta as u8 & 63],
            infos: vec![],
            hops: vec![],
        };
        let ninf = p.num_inf();
        let nhop: usize = p.seg_len[..ninf.max(0)].iter().map(|x| *x as usize).sum();
        // segments after a zero-length one must be zero too
        for k in ninf..3 {
            if p.seg_len[k] != 0 {
                return Err("seglen-after-zero");
            }
        }
        let need = 4 + 8 * ninf + 12 * nhop;
        if b.len() != need {
            return Err("length-mismatch");
        }
        let mut p = p;
        for k in 0..ninf {
            p.infos.push(RInfo::from_bytes(&b[4 + 8 * k..]));
        }
        let base = 4 + 8 * ninf;
        for k in 0..nhop {
            p.hops.push(RHop::from_bytes(&b[base + 12 * k..]));
        }
        Ok(p)
    }
    /// Segment index of hop index `h`.
    pub fn seg_of(&self, h: usize) -> Option<usize> {
        let mut acc = 0usize;
        for s in 0..3 {
            acc += self.seg_len[s] as usize;
            if h < acc {
                return Some(s);
            }
        }
        None
    }
    pub fn seg_range(&self, s: usize) -> std::ops::Range<usize> {
        let start: usize = self.seg_len[..s].iter().map(|x| *x as usize).sum();
        start..start + self.seg_len[s] as usize
    }
    /// Reversal per specification: segments in reverse order, hop fields reversed, ConsDir
    /// toggled, pointers mirrored.
    pub fn reversed(&self) -> RStdPath {
        let n = self.num_inf();
        let total = self.hops.len();
        let mut infos: Vec<RInfo> = self.infos.iter().rev().cloned().collect();
        for i in &mut infos {
            i.flags ^= 1;
        }
        let hops: Vec<RHop> = self.hops.iter().rev().cloned().collect();
        let mut seg_len = [0u8; 3];
        for k in 0..n {
            seg_len[k] = self.seg_len[n - 1 - k];
        }
        RStdPath { curr_inf: (n as u8).wrapping_sub(1).wrapping_sub(self.curr_inf) & 3, curr_hf: ((total as u8).wrapping_sub(1).wrapping_sub(self.curr_hf)) & 63, rsv: self.rsv, seg_len, infos, hops }
    }
}

#[derive(Clone, Debug, PartialEq, Eq)]
pub enum RPath {
    Empty,
    Std(RStdPath),
    OneHop { info: RInfo, hop1: RHop, hop2: RHop },
    Other(u8, Vec<u8>),
}
impl RPath {
    pub fn path_type(&self) -> u8 {
        match self {
            RPath::Empty => 0,
            RPath::Std(_) => 1,
            RPath::OneHop { .. } => 2,
            RPath::Other(t, _) => *t,
        }
    }
    pub fn to_bytes(&self) -> Vec<u8> {
        match self {
            RPath::Empty => vec![],
            RPath::Std(p) => p.to_bytes(),
            RPath::OneHop { info, hop1, hop2 } => {
                let mut v = info.to_bytes().to_vec();
                v.extend_from_slice(&hop1.to_bytes());
                v.extend_from_slice(&hop2.to_bytes());
                v
            }
            RPath::Other(_, b) => b.clone(),
        }
    }
}

#[derive(Clone, Debug, PartialEq, Eq)]
pub struct RHeader {
    pub version: u8,
    pub traffic_class: u8,
    pub flow_id: u32,
    pub next_hdr: u8,
    pub hdr_len: u8,
    pub payload_len: u16,
    pub path_type: u8,
    /// DT(2) DL(2) combined nibble, ST/SL likewise
    pub dst_tl: u8,
    pub src_tl: u8,
    pub rsv: u16,
    pub dst_ia: u64,
    pub src_ia: u64,
    pub dst_host: Vec<u8>,
    pub src_host: Vec<u8>,
    pub path: RPath,
}

pub fn host_len(tl: u8) -> usize {
    ((tl as usize & 3) + 1) * 4
}

impl RHeader {
    /// Bytes of the header as the fields say (no consistency enforced: used to build hostile inputs).
    pub fn to_bytes_raw(&self) -> Vec<u8> {
        let mut v = Vec::new();
        let w0: u32 = ((self.version as u32 & 0xf) << 28) | ((self.traffic_class as u32) << 20) | (self.flow_id & 0xfffff);
        v.extend_from_slice(&w0.to_be_bytes());
        v.push(self.next_hdr);
        v.push(self.hdr_len);
        v.extend_from_slice(&self.payload_len.to_be_bytes());
        v.push(self.path_type);
        v.push(((self.dst_tl & 0xf) << 4) | (self.src_tl & 0xf));
        v.extend_from_slice(&self.rsv.to_be_bytes());
        v.extend_from_slice(&self.dst_ia.to_be_bytes());
        v.extend_from_slice(&self.src_ia.to_be_bytes());
        v.extend_from_slice(&self.dst_host);
        v.extend_from_slice(&self.src_host);
        v.extend_from_slice(&self.path.to_bytes());
        v
    }
    /// The header length in bytes implied by the address nibbles and the path bytes.
    pub fn natural_len(&self) -> usize {
        12 + 16 + self.dst_host.len() + self.src_host.len() + self.path.to_bytes().len()
    }
    /// Set hdr_len to the truthful value.
    pub fn with_natural_hdr_len(mut self) -> Self {
        self.hdr_len = (self.natural_len() / 4) as u8;
        self
    }

    /// Parse a header from the front of `b` by the rules of the specification. Returns the header
    /// and its length in bytes.
    pub fn parse(b: &[u8]) -> Result<(RHeader, usize), &'static str> {
        if b.len() < 12 {
            return Err("short-common");
        }
        let w0 = u32::from_be_bytes([b[0], b[1], b[2], b[3]]);
        let hdr_len = b[5];
        let hl = hdr_len as usize * 4;
        let dst_tl = b[9] >> 4;
        let src_tl = b[9] & 0xf;
        let addr_len = 16 + host_len(dst_tl) + host_len(src_tl);
        if hl < 12 + addr_len {
            return Err("hdrlen-too-small");
        }
        if b.len() < hl {
            return Err("short-header");
        }
        let a = 12;
        let dst_ia = u64::from_be_bytes(b[a..a + 8].try_into().unwrap());
        let src_ia = u64::from_be_bytes(b[a + 8..a + 16].try_into().unwrap());
        let dh = a + 16;
        let sh = dh + host_len(dst_tl);
        let pstart = sh + host_len(src_tl);
        let pbytes = &b[pstart..hl];
        let path_type = b[8];
        let path = match path_type {
            PT_EMPTY => {
                if !pbytes.is_empty() {
                    return Err("empty-path-with-bytes");
                }
                RPath::Empty
            }
            PT_SCION => RPath::Std(RStdPath::parse(pbytes)?),
            PT_ONEHOP => {
                if pbytes.len() != 32 {
                    return Err("onehop-length");
                }
                RPath::OneHop { info: RInfo::from_bytes(&pbytes[0..8]), hop1: RHop::from_bytes(&pbytes[8..20]), hop2: RHop::from_bytes(&pbytes[20..32]) }
            }
            t => RPath::Other(t, pbytes.to_vec()),
        };
        Ok((
            RHeader {
                version: (w0 >> 28) as u8,
                traffic_class: (w0 >> 20) as u8,
                flow_id: w0 & 0xfffff,
                next_hdr: b[4],
                hdr_len,
                payload_len: u16::from_be_bytes([b[6], b[7]]),
                path_type,
                dst_tl,
                src_tl,
                rsv: u16::from_be_bytes([b[10], b[11]]),
                dst_ia,
                src_ia,
                dst_host: b[dh..sh].to_vec(),
                src_host: b[sh..pstart].to_vec(),
                path,
            },
            hl,
        ))
    }
}

/// RFC 1071 internet checksum over the SCION pseudo header and the upper-layer bytes.
/// `l4` must contain the upper-layer header and payload; the caller zeroes the checksum field for
/// computing, or leaves it in for verifying (result 0 means valid).
pub fn checksum(dst_ia: u64, src_ia: u64, dst_host: &[u8], src_host: &[u8], proto: u8, l4: &[u8]) -> u16 {
    let mut sum: u64 = 0;
    let mut add = |bytes: &[u8]| {
        let mut i = 0;
        while i + 1 < bytes.len() {
            sum += u16::from_be_bytes([bytes[i], bytes[i + 1]]) as u64;
            i += 2;
        }
        if i < bytes.len() {
            sum += (bytes[i] as u64) << 8;
        }
    };
    add(&dst_ia.to_be_bytes());
    add(&src_ia.to_be_bytes());
    add(dst_host);
    add(src_host);
    add(&(l4.len() as u32).to_be_bytes());
    add(&[0, 0, 0, proto]);
    add(l4);
    while sum >> 16 != 0 {
        sum = (sum & 0xffff) + (sum >> 16);
    }
    !(sum as u16)
}

/// Verify the L4 checksum of a full packet (header parsed by R-wire). `Ok(true)` = verifies.
pub fn verify_l4_checksum(pkt: &[u8]) -> Result<bool, &'static str> {
    let (h, hl) = RHeader::parse(pkt)?;
    let l4 = &pkt[hl..];
    match h.next_hdr {
        PROTO_UDP => {
            if l4.len() < 8 {
                return Err("short-udp");
            }
        }
        PROTO_SCMP => {
            if l4.len() < 4 {
                return Err("short-scmp");
            }
        }
        _ => return Err("no-l4-checksum"),
    }
    Ok(checksum(h.dst_ia, h.src_ia, &h.dst_host, &h.src_host, h.next_hdr, l4) == 0)
}

pub fn ia(isd: u16, asn: u64) -> u64 {
    ((isd as u64) << 48) | (asn & 0xffff_ffff_ffff)
}
