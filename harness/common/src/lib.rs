//! Shared machinery of the /verif checks: argument parsing, evidence files, known-findings
//! matching, replay artefacts, deterministic helpers. No dependency on any crate of /repo.
use std::{
    collections::{BTreeMap, BTreeSet},
    fmt::Write as _,
    path::{Path, PathBuf},
    sync::Mutex,
    time::Instant,
};

pub use rayon;
pub use serde_json::{self, Value, json};

pub mod refl4;
pub mod refcombine;
pub mod refmac;
pub mod refrouter;
pub mod refseg;
pub mod reftopo;
pub mod reftopo_enum;
pub mod refwire;

#[derive(Clone, Copy, Debug, PartialEq, Eq)]
pub enum Tier {
    Quick,
    Thorough,
}
impl Tier {
    pub fn name(self) -> &'static str {
        match self {
            Tier::Quick => "quick",
            Tier::Thorough => "thorough",
        }
    }
    pub fn pick<T>(self, q: T, t: T) -> T {
        match self {
            Tier::Quick => q,
            Tier::Thorough => t,
        }
    }
}

/// Parsed command line: `<bin> <Cxx> [--tier quick|thorough] [--replay file]`.
pub struct Args {
    pub prop: String,
    pub tier: Tier,
    pub seed: u64,
    pub replay: Option<PathBuf>,
    pub extra: Vec<String>,
}
impl Args {
    pub fn parse() -> Args {
        let mut it = std::env::args().skip(1);
        let mut prop = None;
        let mut tier = match std::env::var("VERIF_TIER").ok().as_deref() {
            Some("thorough") => Tier::Thorough,
            _ => Tier::Quick,
        };
        let mut replay = None;
        let mut extra = vec![];
        while let Some(a) = it.next() {
            match a.as_str() {
                "--tier" => {
                    tier = match it.next().as_deref() {
                        Some("quick") => Tier::Quick,
                        Some("thorough") => Tier::Thorough,
                        o => machinery_failure(&format!("bad --tier {o:?}")),
                    }
                }
                "--replay" => replay = Some(PathBuf::from(it.next().unwrap_or_else(|| machinery_failure("--replay needs a file")))),
                _ if prop.is_none() && !a.starts_with('-') => prop = Some(a),
                _ => extra.push(a),
            }
        }
        let seed = std::env::var("VERIF_SEED").ok().and_then(|s| s.parse().ok()).unwrap_or(0);
        Args { prop: prop.unwrap_or_else(|| machinery_failure("usage: <bin> <Cxx> [--tier quick|thorough] [--replay f]")), tier, seed, replay, extra }
    }
}

/// Exit code 2: the machinery failed; never a verdict.
pub fn machinery_failure(msg: &str) -> ! {
    eprintln!("MACHINERY-FAILURE: {msg}");
    println!("MACHINERY-FAILURE: {msg}");
    std::process::exit(2)
}

pub fn verif_root() -> PathBuf {
    std::env::var_os("VERIF_ROOT").map(PathBuf::from).unwrap_or_else(|| PathBuf::from("/verif"))
}

/// FNV-1a, used for file names and canonical-state keys (never std's randomised hasher).
pub fn fnv64(bytes: &[u8]) -> u64 {
    let mut h: u64 = 0xcbf29ce484222325;
    for b in bytes {
        h ^= *b as u64;
        h = h.wrapping_mul(0x100000001b3);
    }
    h
}

pub fn hex(b: &[u8]) -> String {
    let mut s = String::with_capacity(b.len() * 2);
    for x in b {
        let _ = write!(s, "{x:02x}");
    }
    s
}
pub fn unhex(s: &str) -> Vec<u8> {
    (0..s.len() / 2).map(|i| u8::from_str_radix(&s[2 * i..2 * i + 2], 16).unwrap()).collect()
}

struct KnownEntry {
    class: String,
    what: String,
}

struct Viol {
    count: u64,
    what: String,
    file: PathBuf,
    /// serialized witness; the smallest (length, then lexicographic) witness of the class is kept so that
    /// the replay artefact does not depend on thread scheduling
    witness: String,
}

/// One run of one property check.
pub struct Run {
    pub prop: String,
    pub tier: Tier,
    pub seed: u64,
    start: Instant,
    root: PathBuf,
    known: Vec<KnownEntry>,
    known_hit: Mutex<BTreeMap<String, u64>>,
    viols: Mutex<BTreeMap<String, Viol>>,
    outcomes: Mutex<BTreeMap<String, u64>>,
    samples: Mutex<Vec<Value>>,
}

impl Run {
    pub fn new(args: &Args) -> Run {
        let root = verif_root();
        let mut known = vec![];
        let kf = root.join("known-findings.txt");
        if let Ok(text) = std::fs::read_to_string(&kf) {
            for line in text.lines() {
                let line = line.trim();
                if !line.starts_with("known:") {
                    continue; // "fixed:" lines and comments suppress nothing
                }
                let mut prop = None;
                let mut class = None;
                let mut rest = vec![];
                for tok in line["known:".len()..].split_whitespace() {
                    if let Some(p) = tok.strip_prefix("property=") {
                        if prop.is_none() {
                            prop = Some(p.to_string());
                            continue;
                        }
                    }
                    if let Some(m) = tok.strip_prefix("match=") {
                        if class.is_none() {
                            class = Some(m.to_string());
                            continue;
                        }
                    }
                    rest.push(tok);
                }
                if let (Some(p), Some(c)) = (prop, class) {
                    if p == args.prop {
                        known.push(KnownEntry { class: c, what: rest.join(" ") });
                    }
                }
            }
        }
        Run {
            prop: args.prop.clone(),
            tier: args.tier,
            seed: args.seed,
            start: Instant::now(),
            root,
            known,
            known_hit: Mutex::new(BTreeMap::new()),
            viols: Mutex::new(BTreeMap::new()),
            outcomes: Mutex::new(BTreeMap::new()),
            samples: Mutex::new(vec![]),
        }
    }

    pub fn elapsed_s(&self) -> f64 {
        self.start.elapsed().as_secs_f64()
    }

    /// Count an observed outcome class (printed in evidence so a vacuous run is visible).
    pub fn outcome(&self, class: &str) {
        *self.outcomes.lock().unwrap().entry(class.to_string()).or_default() += 1;
    }
    pub fn outcome_n(&self, class: &str, n: u64) {
        *self.outcomes.lock().unwrap().entry(class.to_string()).or_default() += n;
    }
    pub fn distinct_outcomes(&self) -> usize {
        self.outcomes.lock().unwrap().len()
    }

    /// Keep up to `cap` written-out cases for the evidence file.
    pub fn sample(&self, cap: usize, v: impl FnOnce() -> Value) {
        let mut s = self.samples.lock().unwrap();
        if s.len() < cap {
            s.push(v());
        }
    }

    pub fn is_known(&self, class: &str) -> bool {
        self.known.iter().any(|k| k.class == class)
    }

    /// Report a violating case. `class` is the narrow canonical class of the witness; when it is
    /// listed in known-findings.txt for this property it is counted as a known finding, otherwise it
    /// is a VIOLATION with a replay artefact (first witness per class is kept).
    pub fn violation(&self, class: &str, what: &str, witness: Value) {
        if self.is_known(class) {
            *self.known_hit.lock().unwrap().entry(class.to_string()).or_default() += 1;
            return;
        }
        let ser = serde_json::to_string_pretty(&witness).unwrap_or_default();
        let mut v = self.viols.lock().unwrap();
        if let Some(e) = v.get_mut(class) {
            e.count += 1;
            if (ser.len(), &ser) < (e.witness.len(), &e.witness) {
                e.witness = ser;
                e.what = what.to_string();
            }
            return;
        }
        let dir = self.root.join("replays").join(&self.prop);
        let safe: String = class.chars().map(|c| if c.is_ascii_alphanumeric() || c == '-' || c == '_' || c == '.' { c } else { '_' }).take(80).collect();
        let file = dir.join(format!("{safe}-{:08x}.json", fnv64(class.as_bytes()) as u32));
        eprintln!("violation class found: [{}] {}", class, what);
        v.insert(class.to_string(), Viol { count: 1, what: what.to_string(), file, witness: ser });
    }

    /// Writes the replay artefacts (smallest witness per class) and prints the VIOLATION lines.
    fn flush_violations(&self) {
        let v = self.viols.lock().unwrap();
        for (class, e) in v.iter() {
            if let Some(dir) = e.file.parent() {
                let _ = std::fs::create_dir_all(dir);
            }
            let witness: Value = serde_json::from_str(&e.witness).unwrap_or(Value::Null);
            let body = json!({"property": self.prop, "class": class, "what": e.what, "count_this_run": e.count, "witness": witness});
            let _ = std::fs::write(&e.file, serde_json::to_string_pretty(&body).unwrap());
            println!("VIOLATION property={} replay={}   [{}] x{} {}", self.prop, e.file.display(), class, e.count, e.what);
        }
    }

    pub fn violation_count(&self) -> u64 {
        self.viols.lock().unwrap().values().map(|v| v.count).sum()
    }

    /// Write the evidence file and exit with the contract's code.
    pub fn finish(self, level: &str, mut coverage: Value, assumptions: &[&str]) -> ! {
        self.flush_violations();
        let known_hit = self.known_hit.lock().unwrap().clone();
        for k in &self.known {
            match known_hit.get(&k.class) {
                Some(n) => println!("KNOWN-FINDING: property={} match={} ({} witnesses this run) {}", self.prop, k.class, n, k.what),
                // listed, but this run's bound did not reach a witness of the class (e.g. it needs the thorough depth)
                None => println!("KNOWN-FINDING: property={} match={} (listed; no witness within this run's bound) {}", self.prop, k.class, k.what),
            }
        }
        let stale: Vec<&str> = self.known.iter().filter(|k| !known_hit.contains_key(&k.class)).map(|k| k.class.as_str()).collect();
        let viols = self.viols.lock().unwrap();
        let nviol: u64 = viols.values().map(|v| v.count).sum();
        let outcomes = self.outcomes.lock().unwrap().clone();
        let samples = self.samples.lock().unwrap().clone();
        let cov = coverage.as_object_mut().expect("coverage must be an object");
        if !cov.contains_key("samples") {
            cov.insert("samples".into(), Value::Array(samples));
        }
        cov.insert("distinct_observed_outcomes".into(), json!(outcomes.len()));
        cov.insert("observed_outcomes".into(), json!(outcomes));
        cov.insert("known_findings_matched".into(), json!(known_hit));
        cov.insert("known_findings_listed_but_not_seen".into(), json!(stale));
        cov.insert(
            "violation_classes".into(),
            json!(viols.iter().map(|(k, v)| json!({"class": k, "count": v.count, "what": v.what, "replay": v.file})).collect::<Vec<_>>()),
        );
        let ev = json!({
            "property_id": self.prop,
            "tier": self.tier.name(),
            "seed": self.seed,
            "level": level,
            "coverage": coverage,
            "assumptions": assumptions,
            "wall_s": (self.start.elapsed().as_secs_f64() * 1000.0).round() / 1000.0,
            "violations": nviol,
        });
        let dir = self.root.join("evidence");
        let _ = std::fs::create_dir_all(&dir);
        let path = dir.join(format!("{}.json", self.prop));
        if let Err(e) = std::fs::write(&path, serde_json::to_string_pretty(&ev).unwrap()) {
            machinery_failure(&format!("cannot write {}: {e}", path.display()));
        }
        println!(
            "SUMMARY property={} tier={} violations={} violation_classes={} known_classes_hit={} outcomes={} wall_s={:.1} evidence={}",
            self.prop,
            self.tier.name(),
            nviol,
            viols.len(),
            known_hit.len(),
            outcomes.len(),
            self.start.elapsed().as_secs_f64(),
            path.display()
        );
        std::process::exit(if nviol > 0 { 1 } else { 0 })
    }
}

/// Run `f`, turning a panic into `Err(message)`. The default panic hook is silenced once.
pub fn catch<T>(f: impl FnOnce() -> T) -> Result<T, String> {
    match std::panic::catch_unwind(std::panic::AssertUnwindSafe(f)) {
        Ok(v) => Ok(v),
        Err(e) => Err(if let Some(s) = e.downcast_ref::<&str>() {
            s.to_string()
        } else if let Some(s) = e.downcast_ref::<String>() {
            s.clone()
        } else {
            "non-string panic".to_string()
        }),
    }
}

/// Silence panic messages of the subject (they are caught and turned into verdicts); keeps the
/// last panic location available through [`last_panic_location`].
pub fn quiet_panics() {
    std::panic::set_hook(Box::new(|info| {
        if let Some(l) = info.location() {
            *LAST_PANIC.lock().unwrap() = format!("{}:{}", l.file(), l.line());
        }
    }));
}
static LAST_PANIC: Mutex<String> = Mutex::new(String::new());
pub fn last_panic_location() -> String {
    LAST_PANIC.lock().unwrap().clone()
}

/// Read a replay file written by [`Run::violation`].
pub fn read_replay(p: &Path) -> Value {
    let s = std::fs::read_to_string(p).unwrap_or_else(|e| machinery_failure(&format!("cannot read replay {}: {e}", p.display())));
    serde_json::from_str(&s).unwrap_or_else(|e| machinery_failure(&format!("bad replay {}: {e}", p.display())))
}

/// A concurrent counter set used by parallel enumerations.
#[derive(Default)]
pub struct Counters(Mutex<BTreeMap<&'static str, u64>>);
impl Counters {
    pub fn add(&self, k: &'static str, n: u64) {
        *self.0.lock().unwrap().entry(k).or_default() += n;
    }
    pub fn get(&self, k: &'static str) -> u64 {
        self.0.lock().unwrap().get(k).copied().unwrap_or(0)
    }
    pub fn to_json(&self) -> Value {
        json!(*self.0.lock().unwrap())
    }
}

/// Distinct-set counter keyed by 64-bit hashes (for `distinct_nontrivial`).
#[derive(Default)]
pub struct Distinct(Mutex<BTreeSet<u64>>);
impl Distinct {
    pub fn add(&self, key: &[u8]) {
        self.0.lock().unwrap().insert(fnv64(key));
    }
    pub fn add_hash(&self, h: u64) {
        self.0.lock().unwrap().insert(h);
    }
    pub fn extend(&self, it: impl IntoIterator<Item = u64>) {
        self.0.lock().unwrap().extend(it);
    }
    pub fn len(&self) -> usize {
        self.0.lock().unwrap().len()
    }
}
