//! R-l4: independent spec-level reader/writer of the SCION upper-layer formats (UDP/SCION and
//! SCMP), working on plain byte offsets. Written from the SCION specification
//! (draft-dekater-scion-dataplane §"SCION/UDP", docs.scion.org "SCMP specification"), not from
//! sciparse's layout tables.
//!
//! UDP/SCION (8 B): SrcPort(16) DstPort(16) Length(16, header+data) Checksum(16) ; data.
//! SCMP common header (4 B): Type(8) Code(8) Checksum(16) ; then the type's info block:
//!   1   Destination Unreachable      : Unused(32)                                  ; quote
//!   2   Packet Too Big               : Reserved(16) MTU(16)                        ; quote
//!   4   Parameter Problem            : Reserved(16) Pointer(16)                    ; quote
//!   5   External Interface Down      : ISD(16) AS(48) InterfaceID(64)              ; quote
//!   6   Internal Connectivity Down   : ISD(16) AS(48) Ingress(64) Egress(64)       ; quote
//!   128 Echo Request / 129 Echo Reply: Identifier(16) SequenceNumber(16)           ; data
//!   130 Traceroute Request / 131 Reply: Identifier(16) Sequence(16) ISD(16) AS(48) InterfaceID(64)
//! Error messages (types < 128) quote "as much of the offending packet as possible without the
//! SCMP packet exceeding 1232 bytes" (SCION header + extension headers + SCMP message).
//! The checksum of both protocols is the RFC 1071 sum over the SCION pseudo header
//! (see `refwire::checksum`) and the complete upper-layer message.

pub const SCMP_MAX_PACKET: usize = 1232;

pub const T_DEST_UNREACH: u8 = 1;
pub const T_PKT_TOO_BIG: u8 = 2;
pub const T_PARAM_PROBLEM: u8 = 4;
pub const T_EXT_IF_DOWN: u8 = 5;
pub const T_INT_CONN_DOWN: u8 = 6;
pub const T_ECHO_REQ: u8 = 128;
pub const T_ECHO_REP: u8 = 129;
pub const T_TRACE_REQ: u8 = 130;
pub const T_TRACE_REP: u8 = 131;

/// Bytes of common header + info block of an SCMP type (what must be present before any quote /
/// data). Types the specification does not define only have the 4-byte common header.
pub fn scmp_fixed_len(ty: u8) -> usize {
    match ty {
        T_DEST_UNREACH | T_PKT_TOO_BIG | T_PARAM_PROBLEM => 8,
        T_EXT_IF_DOWN => 4 + 8 + 8,
        T_INT_CONN_DOWN => 4 + 8 + 8 + 8,
        T_ECHO_REQ | T_ECHO_REP => 8,
        T_TRACE_REQ | T_TRACE_REP => 4 + 4 + 8 + 8,
        _ => 4,
    }
}
/// Whether the type carries a variable tail (quote or data). Traceroute has none.
pub fn scmp_has_tail(ty: u8) -> bool {
    !matches!(ty, T_TRACE_REQ | T_TRACE_REP)
}
pub fn scmp_is_error(ty: u8) -> bool {
    ty < 128
}
/// Largest quote an error message of type `ty` may carry behind a SCION header (+extensions) of
/// `hdr_len` bytes.
pub fn scmp_max_quote(ty: u8, hdr_len: usize) -> usize {
    SCMP_MAX_PACKET.saturating_sub(hdr_len).saturating_sub(scmp_fixed_len(ty))
}

fn be16(b: &[u8], o: usize) -> u16 {
    u16::from_be_bytes([b[o], b[o + 1]])
}
fn be32(b: &[u8], o: usize) -> u32 {
    u32::from_be_bytes([b[o], b[o + 1], b[o + 2], b[o + 3]])
}
fn be64(b: &[u8], o: usize) -> u64 {
    u64::from_be_bytes(b[o..o + 8].try_into().unwrap())
}

#[derive(Clone, Debug, PartialEq, Eq)]
pub struct RUdp {
    pub src_port: u16,
    pub dst_port: u16,
    pub length: u16,
    pub checksum: u16,
    pub data: Vec<u8>,
}
impl RUdp {
    /// Bytes as the fields say (no consistency enforced).
    pub fn to_bytes_raw(&self) -> Vec<u8> {
        let mut v = Vec::with_capacity(8 + self.data.len());
        v.extend_from_slice(&self.src_port.to_be_bytes());
        v.extend_from_slice(&self.dst_port.to_be_bytes());
        v.extend_from_slice(&self.length.to_be_bytes());
        v.extend_from_slice(&self.checksum.to_be_bytes());
        v.extend_from_slice(&self.data);
        v
    }
    /// Strict parse of exactly `b` as one datagram: Length must equal `b.len()`.
    pub fn parse(b: &[u8]) -> Result<RUdp, &'static str> {
        if b.len() < 8 {
            return Err("short-udp");
        }
        let length = be16(b, 4);
        if (length as usize) < 8 {
            return Err("udp-length-below-8");
        }
        if length as usize != b.len() {
            return Err("udp-length-mismatch");
        }
        Ok(RUdp { src_port: be16(b, 0), dst_port: be16(b, 2), length, checksum: be16(b, 6), data: b[8..].to_vec() })
    }
}

#[derive(Clone, Debug, PartialEq, Eq)]
pub enum RScmpBody {
    DestUnreach { unused: u32, quote: Vec<u8> },
    PacketTooBig { rsv: u16, mtu: u16, quote: Vec<u8> },
    ParamProblem { rsv: u16, pointer: u16, quote: Vec<u8> },
    ExtIfDown { ia: u64, ifid: u64, quote: Vec<u8> },
    IntConnDown { ia: u64, ingress: u64, egress: u64, quote: Vec<u8> },
    Echo { id: u16, seq: u16, data: Vec<u8> },
    Traceroute { id: u16, seq: u16, ia: u64, ifid: u64 },
    /// A type the specification does not define: everything behind the common header.
    Other { rest: Vec<u8> },
}
#[derive(Clone, Debug, PartialEq, Eq)]
pub struct RScmp {
    pub ty: u8,
    pub code: u8,
    pub checksum: u16,
    pub body: RScmpBody,
}
impl RScmp {
    pub fn to_bytes(&self) -> Vec<u8> {
        let mut v = vec![self.ty, self.code];
        v.extend_from_slice(&self.checksum.to_be_bytes());
        match &self.body {
            RScmpBody::DestUnreach { unused, quote } => {
                v.extend_from_slice(&unused.to_be_bytes());
                v.extend_from_slice(quote);
            }
            RScmpBody::PacketTooBig { rsv, mtu, quote } => {
                v.extend_from_slice(&rsv.to_be_bytes());
                v.extend_from_slice(&mtu.to_be_bytes());
                v.extend_from_slice(quote);
            }
            RScmpBody::ParamProblem { rsv, pointer, quote } => {
                v.extend_from_slice(&rsv.to_be_bytes());
                v.extend_from_slice(&pointer.to_be_bytes());
                v.extend_from_slice(quote);
            }
            RScmpBody::ExtIfDown { ia, ifid, quote } => {
                v.extend_from_slice(&ia.to_be_bytes());
                v.extend_from_slice(&ifid.to_be_bytes());
                v.extend_from_slice(quote);
            }
            RScmpBody::IntConnDown { ia, ingress, egress, quote } => {
                v.extend_from_slice(&ia.to_be_bytes());
                v.extend_from_slice(&ingress.to_be_bytes());
                v.extend_from_slice(&egress.to_be_bytes());
                v.extend_from_slice(quote);
            }
            RScmpBody::Echo { id, seq, data } => {
                v.extend_from_slice(&id.to_be_bytes());
                v.extend_from_slice(&seq.to_be_bytes());
                v.extend_from_slice(data);
            }
            RScmpBody::Traceroute { id, seq, ia, ifid } => {
                v.extend_from_slice(&id.to_be_bytes());
                v.extend_from_slice(&seq.to_be_bytes());
                v.extend_from_slice(&ia.to_be_bytes());
                v.extend_from_slice(&ifid.to_be_bytes());
            }
            RScmpBody::Other { rest } => v.extend_from_slice(rest),
        }
        v
    }
    /// Strict parse of exactly `b` as one SCMP message (traceroute must have no tail).
    pub fn parse(b: &[u8]) -> Result<RScmp, &'static str> {
        if b.len() < 4 {
            return Err("short-scmp-common");
        }
        let ty = b[0];
        let fixed = scmp_fixed_len(ty);
        if b.len() < fixed {
            return Err("short-scmp-info-block");
        }
        let tail = b[fixed..].to_vec();
        let body = match ty {
            T_DEST_UNREACH => RScmpBody::DestUnreach { unused: be32(b, 4), quote: tail },
            T_PKT_TOO_BIG => RScmpBody::PacketTooBig { rsv: be16(b, 4), mtu: be16(b, 6), quote: tail },
            T_PARAM_PROBLEM => RScmpBody::ParamProblem { rsv: be16(b, 4), pointer: be16(b, 6), quote: tail },
            T_EXT_IF_DOWN => RScmpBody::ExtIfDown { ia: be64(b, 4), ifid: be64(b, 12), quote: tail },
            T_INT_CONN_DOWN => RScmpBody::IntConnDown { ia: be64(b, 4), ingress: be64(b, 12), egress: be64(b, 20), quote: tail },
            T_ECHO_REQ | T_ECHO_REP => RScmpBody::Echo { id: be16(b, 4), seq: be16(b, 6), data: tail },
            T_TRACE_REQ | T_TRACE_REP => {
                if !tail.is_empty() {
                    return Err("traceroute-with-tail");
                }
                RScmpBody::Traceroute { id: be16(b, 4), seq: be16(b, 6), ia: be64(b, 8), ifid: be64(b, 16) }
            }
            _ => RScmpBody::Other { rest: tail },
        };
        Ok(RScmp { ty, code: b[1], checksum: be16(b, 2), body })
    }
    /// Reserved / unused bits of the info block (must be zero in a canonical encoding).
    pub fn reserved_bits(&self) -> u64 {
        match &self.body {
            RScmpBody::DestUnreach { unused, .. } => *unused as u64,
            RScmpBody::PacketTooBig { rsv, .. } | RScmpBody::ParamProblem { rsv, .. } => *rsv as u64,
            _ => 0,
        }
    }
}

#[cfg(test)]
mod tests {
    use super::*;
    #[test]
    fn lens() {
        assert_eq!(scmp_fixed_len(5), 20);
        assert_eq!(scmp_fixed_len(6), 28);
        assert_eq!(scmp_fixed_len(130), 24);
        assert_eq!(scmp_max_quote(1, 36), 1232 - 36 - 8);
        let m = RScmp { ty: 131, code: 0, checksum: 7, body: RScmpBody::Traceroute { id: 1, seq: 2, ia: 3, ifid: 4 } };
        assert_eq!(RScmp::parse(&m.to_bytes()).unwrap(), m);
        assert_eq!(m.to_bytes().len(), 24);
    }
}
