//! R-router: the SCION border-router decision procedure for one AS, written from the SCION
//! dataplane specification (draft-dekater-scion-dataplane, "Processing at routers") and the
//! semantics of the open-source reference router (scionproto `router/dataplane.go`:
//! `process()` = parsePath, determinePeer, validateHopExpiry, validateIngressID,
//! updateNonConsDirIngressSegID, verifyCurrentMAC, handleIngressRouterAlert, deliver-if-local,
//! doXover + re-validate, validateEgressID, handleEgressRouterAlert, validateEgressUp,
//! processEgress). Nothing here is derived from pocketscion or sciparse; the wire codec is R-wire,
//! the MAC is R-mac, the topology is R-topo.
//!
//! One call = one AS: (topology, AS, ingress interface (0 = from inside the AS), packet bytes,
//! now, link-down set) -> [`Step`].
//!
//! Order of checks: the specification lists the checks but does not make their relative order
//! normative. [`Step::verdict`] is computed in the reference router's order; [`Step::events`] lists
//! EVERY check that fails on this packet at this AS irrespective of order, so a comparison can be
//! strict when exactly one check fails and accept/reject-only when two or more coexist.
//! [`Step::dontcare`] names conditions for which the specification fixes no behaviour at all
//! (an info-field timestamp in the future; a router-alert flag on a hop field taking part in a
//! segment change; a one-hop segment outside a peering crossing).
use crate::{
    refmac,
    reftopo::{AsIdx, NeighbourRole, Topo},
    refwire::{RHeader, RPath, RStdPath},
};

/// Hop-field flag: router alert for the construction-direction ingress router.
pub const HF_ALERT_CONS_INGRESS: u8 = 0x02;
/// Hop-field flag: router alert for the construction-direction egress router.
pub const HF_ALERT_CONS_EGRESS: u8 = 0x01;

#[derive(Clone, Copy, Debug, PartialEq, Eq, PartialOrd, Ord, Hash)]
pub enum RejectClass {
    /// current (or post-cross-over) hop field expired: Timestamp + (ExpTime+1)*24h/256 < now
    Expired,
    /// hop-field MAC does not verify with this AS's key and the SegID accumulator
    BadMac,
    /// packet arrived on an interface other than the hop field's ingress in travel direction
    BadIngress,
    /// egress interface of the hop field (travel direction) is not an interface of this AS
    BadEgress,
    /// segment change with a link-type pair outside {core->child, child->core, child->child},
    /// or a segment change on a packet that came from inside the AS
    BadSegmentChange,
    /// within one segment: link-type pair outside {core-core, child-parent, parent-child,
    /// child-peer, peer-child}
    BadLinkPair,
    /// egress link is down
    LinkDown,
    /// last hop field reached but DstIA is another AS
    NonLocalDelivery,
}
impl RejectClass {
    pub fn name(self) -> &'static str {
        match self {
            RejectClass::Expired => "expired",
            RejectClass::BadMac => "bad-mac",
            RejectClass::BadIngress => "bad-ingress",
            RejectClass::BadEgress => "bad-egress",
            RejectClass::BadSegmentChange => "bad-segment-change",
            RejectClass::BadLinkPair => "bad-link-pair",
            RejectClass::LinkDown => "link-down",
            RejectClass::NonLocalDelivery => "non-local-delivery",
        }
    }
}

/// Which hop-field interface an SCMP "unknown hop field interface" error would name.
#[derive(Clone, Copy, Debug, PartialEq, Eq, PartialOrd, Ord, Hash)]
pub enum IfCode {
    ConsIngress,
    ConsEgress,
}

#[derive(Clone, Debug, PartialEq, Eq, PartialOrd, Ord, Hash)]
pub enum Event {
    Reject(RejectClass),
    /// the router-alert flag addressed to this router is set: the packet goes to the router's
    /// slow path (`egress` = the alert was for the egress side)
    Alert { egress: bool },
}

#[derive(Clone, Debug, PartialEq, Eq)]
pub enum Verdict {
    /// `packet`: bytes handed to the end host (SegID folded at a non-cons-dir external ingress)
    Delivered { at: AsIdx, packet: Vec<u8> },
    Forward { egress_if: u16, next_as: AsIdx, next_if: u16, packet: Vec<u8> },
    /// `if_code`: for BadIngress/BadEgress the hop-field interface the error names
    Reject { class: RejectClass, if_code: Option<IfCode> },
    /// router alert addressed to this router (terminal for the forwarding step)
    Alert { egress: bool, if_id: u16 },
    /// structurally unusable packet: dropped without a reply
    Drop(&'static str),
}
impl Verdict {
    pub fn class_name(&self) -> String {
        match self {
            Verdict::Delivered { .. } => "delivered".into(),
            Verdict::Forward { .. } => "forward".into(),
            Verdict::Reject { class, .. } => class.name().into(),
            Verdict::Alert { egress: false, .. } => "alert-ingress".into(),
            Verdict::Alert { egress: true, .. } => "alert-egress".into(),
            Verdict::Drop(_) => "drop".into(),
        }
    }
    pub fn is_accept(&self) -> bool {
        matches!(self, Verdict::Delivered { .. } | Verdict::Forward { .. })
    }
}

#[derive(Clone, Debug, PartialEq, Eq)]
pub struct Step {
    pub verdict: Verdict,
    /// every failing check / alert at this AS, irrespective of order (sorted, deduplicated)
    pub events: Vec<Event>,
    /// conditions the specification leaves open (either behaviour is acceptable)
    pub dontcare: Vec<&'static str>,
    /// remarks (e.g. where scionproto is stricter than the specification text)
    pub notes: Vec<&'static str>,
    /// the step performed an effective cross-over
    pub xover: bool,
    /// the step processed a peering hop field
    pub peering: bool,
}

fn within_segment_ok(i: NeighbourRole, e: NeighbourRole) -> bool {
    use NeighbourRole::*;
    matches!((i, e), (Core, Core) | (Child, Parent) | (Parent, Child) | (Child, Peer) | (Peer, Child))
}
fn segment_change_ok(i: NeighbourRole, e: NeighbourRole) -> bool {
    use NeighbourRole::*;
    matches!((i, e), (Core, Child) | (Child, Core) | (Child, Child))
}

/// `2*expiry` in half seconds: 2*ts + (exp+1)*675  (one unit = 24h/256 = 337.5 s).
pub fn expiry_half_secs(ts: u32, exp_time: u8) -> u64 {
    2 * ts as u64 + (exp_time as u64 + 1) * 675
}
/// Last whole second at which the hop field is still valid.
pub fn last_valid_second(ts: u32, exp_time: u8) -> u64 {
    expiry_half_secs(ts, exp_time) / 2
}
fn expired(ts: u32, exp_time: u8, now: u32) -> bool {
    expiry_half_secs(ts, exp_time) < 2 * now as u64
}

/// Byte offset of the path inside the packet (after common + address header).
fn path_offset(h: &RHeader) -> usize {
    12 + 16 + h.dst_host.len() + h.src_host.len()
}

/// Deviation switches. They are NOT part of the reference: [`step`] always runs with none of them.
/// Each names one way in which an implementation may depart from the rules above; a check that has
/// found a disagreement with the pure reference uses [`step_with`] to ask WHICH (smallest) set of
/// departures reproduces the implementation's behaviour, and names the finding after it. A
/// disagreement no set explains stays "unexplained".
#[derive(Clone, Copy, Debug, Default, PartialEq, Eq)]
pub struct Quirks {
    /// after a cross-over the NEW hop field is also subjected to the ingress-interface check
    /// (non-zero ingress of the new hop must equal the interface the packet arrived on)
    pub xover_second_hop_ingress_check: bool,
    /// the segment-change table is evaluated on the link type of the interface NAMED BY THE CURRENT
    /// HOP FIELD as ingress, not of the interface the packet really arrived on (so a packet from
    /// inside the AS can change segments; an unknown interface there is an unknown-ingress error)
    pub segment_change_judged_by_hop_field_ingress: bool,
    /// a hop field whose ingress (travel direction) is 0 passes the ingress check on any interface
    /// (and its ingress router alert is then not honoured)
    pub zero_hop_ingress_is_wildcard: bool,
    /// child->peer and peer->child are accepted as SEGMENT-CHANGE pairs
    pub peer_pairs_in_segment_change_table: bool,
    /// the Peering flag of the info field is ignored (SegID is updated on peering hops, a peering
    /// hop at a segment boundary is an ordinary cross-over, no shape check)
    pub peering_flag_ignored: bool,
    /// a packet whose current segment has exactly one hop field is dropped
    pub one_hop_segment_dropped: bool,
    /// no link-type check for ingress/egress pairs inside a segment
    pub no_within_segment_table: bool,
}
impl Quirks {
    pub const NAMES: [&'static str; 7] = [
        "xover-second-hop-ingress-check",
        "segment-change-judged-by-hop-field-ingress",
        "zero-hop-ingress-is-wildcard",
        "peer-pairs-in-segment-change-table",
        "peering-flag-ignored",
        "one-hop-segment-dropped",
        "no-within-segment-table",
    ];
    pub fn from_mask(m: u32) -> Quirks {
        Quirks {
            xover_second_hop_ingress_check: m & 1 != 0,
            segment_change_judged_by_hop_field_ingress: m & 2 != 0,
            zero_hop_ingress_is_wildcard: m & 4 != 0,
            peer_pairs_in_segment_change_table: m & 8 != 0,
            peering_flag_ignored: m & 16 != 0,
            one_hop_segment_dropped: m & 32 != 0,
            no_within_segment_table: m & 64 != 0,
        }
    }
    pub fn names(m: u32) -> Vec<&'static str> {
        (0..7).filter(|i| m & (1 << i) != 0).map(|i| Self::NAMES[i]).collect()
    }
}

/// One border-router step. `link_down(link index)` tells whether a link of `topo.links` is down.
pub fn step(topo: &Topo, at: AsIdx, ingress: u16, pkt: &[u8], now: u32, link_down: &dyn Fn(usize) -> bool) -> Step {
    step_with(topo, at, ingress, pkt, now, link_down, &Quirks::default())
}

/// [`step`] with deviation switches (naming of findings only; see [`Quirks`]).
pub fn step_with(topo: &Topo, at: AsIdx, ingress: u16, pkt: &[u8], now: u32, link_down: &dyn Fn(usize) -> bool, q: &Quirks) -> Step {
    let mut events: Vec<Event> = vec![];
    let mut dontcare: Vec<&'static str> = vec![];
    let mut notes: Vec<&'static str> = vec![];
    let drop = |why: &'static str| Step { verdict: Verdict::Drop(why), events: vec![], dontcare: vec![], notes: vec![], xover: false, peering: false };

    // ---- parse
    let (hdr, hl) = match RHeader::parse(pkt) {
        Ok(x) => x,
        Err(e) => return drop(e),
    };
    if hdr.version != 0 {
        return drop("version");
    }
    let mut p: RStdPath = match &hdr.path {
        RPath::Std(p) => p.clone(),
        _ => return drop("path-type-not-standard"),
    };
    let total = p.hops.len();
    if total == 0 || p.num_inf() == 0 {
        return drop("no-hop-fields");
    }
    let ch = p.curr_hf as usize;
    let ci = p.curr_inf as usize;
    if ch >= total {
        return drop("currhf-out-of-range");
    }
    if p.seg_of(ch) != Some(ci) {
        return drop("currinf-not-segment-of-currhf");
    }
    let local_ia = topo.ases[at].ia();
    let key = topo.ases[at].key;
    let ingress_role = if ingress == 0 {
        None
    } else {
        match topo.neighbour(at, ingress) {
            Some((_, _, role, _)) => Some(role),
            None => return drop("harness: ingress interface does not exist"),
        }
    };

    // ---- peering hop? (decided once, from the position on arrival)
    let peering = if p.infos[ci].peering() && !q.peering_flag_ignored {
        if p.seg_len[0] == 0 || p.seg_len[1] == 0 || p.seg_len[2] != 0 {
            return drop("peering-flag-on-non-two-segment-path");
        }
        ch + 1 == p.seg_len[0] as usize || ch == p.seg_len[0] as usize
    } else {
        false
    };

    // ---- current hop field
    let seg = p.seg_range(ci);
    if seg.len() == 1 && q.one_hop_segment_dropped {
        return drop("quirk: one-hop segment");
    }
    if seg.len() == 1 && !peering {
        dontcare.push("one-hop-segment");
    }
    let cons_dir = p.infos[ci].cons_dir();
    let ts = p.infos[ci].timestamp;
    if ts > now {
        dontcare.push("future-timestamp");
    }
    let hop = p.hops[ch].clone();
    if expired(ts, hop.exp_time, now) {
        events.push(Event::Reject(RejectClass::Expired));
    }
    let (t_in, _t_eg) = if cons_dir { (hop.cons_ingress, hop.cons_egress) } else { (hop.cons_egress, hop.cons_ingress) };
    let mut first_reject: Option<Verdict> = None;
    fn set_first(fr: &mut Option<Verdict>, v: Verdict) {
        if fr.is_none() {
            *fr = Some(v);
        }
    }
    if events.contains(&Event::Reject(RejectClass::Expired)) {
        set_first(&mut first_reject, Verdict::Reject { class: RejectClass::Expired, if_code: None });
    }
    if ingress != 0 && t_in != ingress && !(q.zero_hop_ingress_is_wildcard && t_in == 0) {
        events.push(Event::Reject(RejectClass::BadIngress));
        set_first(&mut first_reject, Verdict::Reject { class: RejectClass::BadIngress, if_code: Some(if cons_dir { IfCode::ConsIngress } else { IfCode::ConsEgress }) });
    }
    // against construction direction the ingress router folds this hop's MAC into SegID first
    if !cons_dir && ingress != 0 && !peering {
        p.infos[ci].seg_id = refmac::beta_step(p.infos[ci].seg_id, &hop.mac);
    }
    if refmac::hop_mac(&key, p.infos[ci].seg_id, ts, hop.exp_time, hop.cons_ingress, hop.cons_egress) != hop.mac {
        events.push(Event::Reject(RejectClass::BadMac));
        set_first(&mut first_reject, Verdict::Reject { class: RejectClass::BadMac, if_code: None });
    }
    // ingress router alert
    let in_alert_bit = if cons_dir { HF_ALERT_CONS_INGRESS } else { HF_ALERT_CONS_EGRESS };
    let eg_alert_bit = if cons_dir { HF_ALERT_CONS_EGRESS } else { HF_ALERT_CONS_INGRESS };
    if ingress != 0 && hop.flags & in_alert_bit != 0 && !(q.zero_hop_ingress_is_wildcard && t_in != ingress) {
        p.hops[ch].flags &= !in_alert_bit;
        events.push(Event::Alert { egress: false });
        set_first(&mut first_reject, Verdict::Alert { egress: false, if_id: ingress });
    }

    let finish = |verdict: Verdict, mut events: Vec<Event>, dontcare: Vec<&'static str>, notes: Vec<&'static str>, xover: bool| {
        events.sort();
        events.dedup();
        Step { verdict, events, dontcare, notes, xover, peering }
    };

    // ---- delivery
    let is_last = ch + 1 == total;
    if is_last {
        if hdr.dst_ia != local_ia {
            events.push(Event::Reject(RejectClass::NonLocalDelivery));
            set_first(&mut first_reject, Verdict::Reject { class: RejectClass::NonLocalDelivery, if_code: None });
        }
        let v = match first_reject {
            Some(v) => v,
            None => {
                let po = path_offset(&hdr);
                let mut out = pkt.to_vec();
                let pb = p.to_bytes();
                out[po..po + pb.len()].copy_from_slice(&pb);
                Verdict::Delivered { at, packet: out }
            }
        };
        return finish(v, events, dontcare, notes, false);
    }
    if hdr.dst_ia == local_ia {
        notes.push("DstIA is local but the path continues (scionproto rejects this as invalid DstIA)");
    }

    // ---- effective cross-over
    let is_xover = p.seg_of(ch + 1) != Some(ci);
    let xover = is_xover && !peering;
    let mut eh = ch; // hop field that names the egress
    let mut ei = ci;
    if xover {
        if hop.flags & eg_alert_bit != 0 {
            dontcare.push("router-alert-on-segment-change");
        }
        eh = ch + 1;
        ei = ci + 1;
        if ei >= p.infos.len() {
            return drop("cross-over without a next info field");
        }
        let nhop = p.hops[eh].clone();
        let ncons = p.infos[ei].cons_dir();
        let nts = p.infos[ei].timestamp;
        if nts > now {
            dontcare.push("future-timestamp");
        }
        let n_in_alert = if ncons { HF_ALERT_CONS_INGRESS } else { HF_ALERT_CONS_EGRESS };
        if nhop.flags & n_in_alert != 0 {
            dontcare.push("router-alert-on-segment-change");
        }
        if p.seg_range(ei).len() == 1 {
            dontcare.push("one-hop-segment");
        }
        if q.xover_second_hop_ingress_check {
            let n_in = if ncons { nhop.cons_ingress } else { nhop.cons_egress };
            if ingress != 0 && n_in != 0 && n_in != ingress {
                events.push(Event::Reject(RejectClass::BadIngress));
                set_first(&mut first_reject, Verdict::Reject { class: RejectClass::BadIngress, if_code: Some(if ncons { IfCode::ConsIngress } else { IfCode::ConsEgress }) });
            }
        }
        if expired(nts, nhop.exp_time, now) {
            events.push(Event::Reject(RejectClass::Expired));
            set_first(&mut first_reject, Verdict::Reject { class: RejectClass::Expired, if_code: None });
        }
        // the new hop field is verified as it stands: no ingress-interface check, no SegID update
        if refmac::hop_mac(&key, p.infos[ei].seg_id, nts, nhop.exp_time, nhop.cons_ingress, nhop.cons_egress) != nhop.mac {
            events.push(Event::Reject(RejectClass::BadMac));
            set_first(&mut first_reject, Verdict::Reject { class: RejectClass::BadMac, if_code: None });
        }
    }
    let ehop = p.hops[eh].clone();
    let econs = p.infos[ei].cons_dir();
    let egress_if = if econs { ehop.cons_egress } else { ehop.cons_ingress };

    // ---- egress interface and link-type pair
    let eg = if egress_if == 0 { None } else { topo.neighbour(at, egress_if) };
    // link type the ingress side is judged by
    let mut judged_ingress_role = ingress_role;
    if xover && q.segment_change_judged_by_hop_field_ingress {
        judged_ingress_role = if t_in == 0 { None } else { topo.neighbour(at, t_in).map(|n| n.2) };
        if judged_ingress_role.is_none() {
            events.push(Event::Reject(RejectClass::BadIngress));
            set_first(&mut first_reject, Verdict::Reject { class: RejectClass::BadIngress, if_code: Some(if cons_dir { IfCode::ConsIngress } else { IfCode::ConsEgress }) });
        }
    } else if xover && ingress_role.is_none() {
        // a segment change on a packet from inside the AS is never valid
        events.push(Event::Reject(RejectClass::BadSegmentChange));
        set_first(&mut first_reject, Verdict::Reject { class: RejectClass::BadSegmentChange, if_code: None });
    }
    let ingress_role = judged_ingress_role;
    match eg {
        None => {
            events.push(Event::Reject(RejectClass::BadEgress));
            set_first(&mut first_reject, Verdict::Reject { class: RejectClass::BadEgress, if_code: Some(if econs { IfCode::ConsEgress } else { IfCode::ConsIngress }) });
        }
        Some((_, _, erole, _)) => {
            if xover {
                let ok = match ingress_role {
                    None => true, // already recorded above
                    Some(ir) => segment_change_ok(ir, erole) || (q.peer_pairs_in_segment_change_table && matches!((ir, erole), (NeighbourRole::Child, NeighbourRole::Peer) | (NeighbourRole::Peer, NeighbourRole::Child))),
                };
                if !ok {
                    events.push(Event::Reject(RejectClass::BadSegmentChange));
                    set_first(&mut first_reject, Verdict::Reject { class: RejectClass::BadSegmentChange, if_code: None });
                }
            } else if let Some(ir) = ingress_role {
                if !within_segment_ok(ir, erole) && !q.no_within_segment_table {
                    events.push(Event::Reject(RejectClass::BadLinkPair));
                    set_first(&mut first_reject, Verdict::Reject { class: RejectClass::BadLinkPair, if_code: None });
                }
            }
        }
    }
    // egress router alert (handled before the link-state check so a traceroute can name the link)
    let e_eg_alert = if econs { HF_ALERT_CONS_EGRESS } else { HF_ALERT_CONS_INGRESS };
    if eg.is_some() && ehop.flags & e_eg_alert != 0 {
        p.hops[eh].flags &= !e_eg_alert;
        events.push(Event::Alert { egress: true });
        set_first(&mut first_reject, Verdict::Alert { egress: true, if_id: egress_if });
    }
    if let Some((_, _, _, li)) = eg {
        if link_down(li) {
            events.push(Event::Reject(RejectClass::LinkDown));
            set_first(&mut first_reject, Verdict::Reject { class: RejectClass::LinkDown, if_code: None });
        }
    }
    if let Some(v) = first_reject {
        return finish(v, events, dontcare, notes, xover);
    }
    let (next_as, next_if, _, _) = eg.expect("egress exists when nothing was rejected");

    // ---- egress processing
    if econs && !peering {
        p.infos[ei].seg_id = refmac::beta_step(p.infos[ei].seg_id, &ehop.mac);
    }
    let nh = eh + 1;
    if nh >= total {
        // nothing left to point at: the path ends in the middle of this AS's processing
        return finish(Verdict::Drop("pointer-increment-past-last-hop"), events, dontcare, notes, xover);
    }
    p.curr_hf = nh as u8;
    p.curr_inf = p.seg_of(nh).expect("nh < total") as u8;

    let po = path_offset(&hdr);
    let mut out = pkt.to_vec();
    let pb = p.to_bytes();
    debug_assert_eq!(po + pb.len(), hl);
    out[po..po + pb.len()].copy_from_slice(&pb);
    finish(Verdict::Forward { egress_if, next_as, next_if, packet: out }, events, dontcare, notes, xover)
}

/// One AS visit of a complete walk.
#[derive(Clone, Debug)]
pub struct Visit {
    pub at: AsIdx,
    pub ingress: u16,
    /// egress interface when the step forwarded
    pub egress: Option<u16>,
    pub step: Step,
    /// packet bytes on arrival at this AS
    pub bytes_in: Vec<u8>,
}

/// Walk a packet until a non-forward verdict (at most `max_steps` visits).
pub fn walk(topo: &Topo, start: AsIdx, ingress: u16, pkt: &[u8], now: u32, link_down: &dyn Fn(usize) -> bool, max_steps: usize) -> Vec<Visit> {
    let mut visits = vec![];
    let (mut at, mut ing, mut bytes) = (start, ingress, pkt.to_vec());
    for _ in 0..max_steps {
        let st = step(topo, at, ing, &bytes, now, link_down);
        let fwd = match &st.verdict {
            Verdict::Forward { egress_if, next_as, next_if, packet } => Some((*egress_if, *next_as, *next_if, packet.clone())),
            _ => None,
        };
        visits.push(Visit { at, ingress: ing, egress: fwd.as_ref().map(|f| f.0), step: st, bytes_in: bytes.clone() });
        match fwd {
            Some((_, na, ni, b)) => {
                at = na;
                ing = ni;
                bytes = b;
            }
            None => break,
        }
    }
    visits
}
