//! R-topo enumerator: ALL small SCION topologies up to isomorphism + a curated list of larger ones.
//!
//! PUBLIC API (stable):
//!   `enumerate(n, max_mult) -> Vec<Topo>`  every topology shape with exactly `n` ASes, each in TWO
//!        interface numberings (so `2 * shape_count` entries, deterministic order: shape 0 "-seq",
//!        shape 0 "-eq", shape 1 "-seq", ...). Names: `n<n>-s<shape index>-<seq|eq>`.
//!   `enumerate_shapes(n, max_mult) -> Vec<Shape>`  the canonical shapes only (no numbering).
//!   `Shape::to_topo(name, Numbering) -> Topo`
//!   `curated() -> Vec<Topo>`  named larger shapes (<= 8 ASes, plus the repo's own 16-AS test graph).
//!   `self_test(max_n, max_mult) -> Result<Vec<(usize, usize)>, String>`  (n, shape count) per n; every Topo validated.
//!
//! Shape space for `n` ASes:
//!   * 1 or 2 ISDs, every ISD has >= 1 core AS;
//!   * core links between any two cores (also across ISDs), multiplicity 0..=max_mult per pair, the
//!     core graph (over both ISDs) is connected;
//!   * parent->child links only inside an ISD, acyclic, every non-core AS has >= 1 parent (core or
//!     non-core; several parents allowed; multiplicity 1), hence every non-core is reachable from a core;
//!   * peering links between any two distinct non-core ASes (same or different ISD, also between
//!     a parent and its child), multiplicity <= 1, any subset;
//!   * isomorphism = relabeling inside (cores of an ISD) and inside (non-cores of an ISD), plus swapping
//!     the two ISDs; canonical form = minimum encoding over these relabelings; one representative
//!     (the first generated one, parents before children) is kept per canonical form.
//!
//! AS layout of a shape / Topo: ISD-1 cores, ISD-1 non-cores, ISD-2 cores, ISD-2 non-cores.
//! ISD numbers are 1 and 2; AS numbers `ff00:0:<isd><idx+1 as 2 hex digits>`.
//!
//! Numberings:
//!   * `Seq`: every AS numbers its interfaces 1,2,3.. in link order (ids collide across ASes).
//!   * `Eq`:  every link carries the SAME id at both ends (smallest id free at both ASes), so the
//!     two ends of a link are indistinguishable by id and ids collide across ASes.
//! Keys / MTUs: distinct per AS and per link, from `Topo::add_as` / `Topo::add_link`.
use std::collections::BTreeMap;

use crate::reftopo::{LinkKind, Topo};

#[derive(Clone, Copy, Debug, PartialEq, Eq)]
pub enum Numbering {
    Seq,
    Eq,
}

/// A topology shape without interface ids. Matrices are `n x n`, row-major.
#[derive(Clone, Debug, PartialEq, Eq, PartialOrd, Ord)]
pub struct Shape {
    pub n: usize,
    /// ISD (0 or 1) of every AS.
    pub isd: Vec<u8>,
    pub core: Vec<bool>,
    /// core-link multiplicity, symmetric.
    pub cm: Vec<u8>,
    /// `pc[p*n+c] = 1` iff p is a parent of c.
    pub pc: Vec<u8>,
    /// peering-link multiplicity, symmetric.
    pub pe: Vec<u8>,
}

impl Shape {
    fn class(&self, i: usize) -> (u8, bool) {
        (self.isd[i], self.core[i])
    }

    /// Encoding after relabeling `i -> perm[i]`, with ISD labels mapped by `isd_map`.
    fn encode(&self, perm: &[usize], isd_map: [u8; 2]) -> Vec<u8> {
        let n = self.n;
        let mut out = vec![0u8; 2 * n + 3 * n * n];
        for i in 0..n {
            out[perm[i]] = isd_map[self.isd[i] as usize];
            out[n + perm[i]] = self.core[i] as u8;
        }
        let base = 2 * n;
        for i in 0..n {
            for j in 0..n {
                let (pi, pj) = (perm[i], perm[j]);
                out[base + pi * n + pj] = self.cm[i * n + j];
                out[base + n * n + pi * n + pj] = self.pc[i * n + j];
                out[base + 2 * n * n + pi * n + pj] = self.pe[i * n + j];
            }
        }
        out
    }

    /// Minimum encoding over all admissible relabelings. The layout (ISD-1 cores, ISD-1 non-cores,
    /// ISD-2 cores, ISD-2 non-cores) must be preserved, so a relabeling maps class to class
    /// (optionally after swapping the ISDs, when both ISDs have the same numbers of cores/non-cores).
    pub fn canonical_key(&self) -> Vec<u8> {
        let n = self.n;
        let mut best: Option<Vec<u8>> = None;
        let count = |isd: u8, core: bool| (0..n).filter(|&i| self.class(i) == (isd, core)).count();
        let swappable = count(0, true) == count(1, true) && count(0, false) == count(1, false) && count(1, true) > 0;
        let maps: &[[u8; 2]] = if swappable { &[[0, 1], [1, 0]] } else { &[[0, 1]] };
        let mut perm: Vec<usize> = (0..n).collect();
        permute(&mut perm, 0, &mut |p: &[usize]| {
            for m in maps {
                // position class is fixed by the layout: position q has class of AS q in `self`.
                if (0..n).all(|i| {
                    let (isd, core) = self.class(i);
                    (m[isd as usize], core) == self.class(p[i])
                }) {
                    let e = self.encode(p, *m);
                    if best.as_ref().map_or(true, |b| e < *b) {
                        best = Some(e);
                    }
                }
            }
        });
        best.expect("identity relabeling is always admissible")
    }

    pub fn to_topo(&self, name: &str, numbering: Numbering) -> Topo {
        let n = self.n;
        let mut t = Topo::new(name);
        for i in 0..n {
            let isd = self.isd[i] as u16 + 1;
            let asn = 0xff00_0000_0000u64 | ((isd as u64) << 8) | (i as u64 + 1);
            t.add_as(isd, asn, self.core[i]);
        }
        let mut links: Vec<(usize, usize, LinkKind)> = vec![];
        for i in 0..n {
            for j in i + 1..n {
                for _ in 0..self.cm[i * n + j] {
                    links.push((i, j, LinkKind::Core));
                }
            }
        }
        for p in 0..n {
            for c in 0..n {
                for _ in 0..self.pc[p * n + c] {
                    links.push((p, c, LinkKind::ParentChild));
                }
            }
        }
        for i in 0..n {
            for j in i + 1..n {
                for _ in 0..self.pe[i * n + j] {
                    links.push((i, j, LinkKind::Peer));
                }
            }
        }
        let mut used: Vec<Vec<u16>> = vec![vec![]; n];
        for (a, b, kind) in links {
            let (ia, ib) = match numbering {
                Numbering::Seq => (used[a].len() as u16 + 1, used[b].len() as u16 + 1),
                Numbering::Eq => {
                    let mut id = 1u16;
                    while used[a].contains(&id) || used[b].contains(&id) {
                        id += 1;
                    }
                    (id, id)
                }
            };
            used[a].push(ia);
            used[b].push(ib);
            t.add_link(a, ia, b, ib, kind);
        }
        t
    }
}

fn permute(p: &mut Vec<usize>, k: usize, f: &mut impl FnMut(&[usize])) {
    if k == p.len() {
        f(p);
        return;
    }
    for i in k..p.len() {
        p.swap(k, i);
        permute(p, k + 1, f);
        p.swap(k, i);
    }
}

fn connected(nodes: &[usize], n: usize, adj: &[u8]) -> bool {
    if nodes.is_empty() {
        return true;
    }
    let mut seen = vec![false; n];
    let mut st = vec![nodes[0]];
    seen[nodes[0]] = true;
    while let Some(x) = st.pop() {
        for &y in nodes {
            if !seen[y] && adj[x * n + y] > 0 {
                seen[y] = true;
                st.push(y);
            }
        }
    }
    nodes.iter().all(|&x| seen[x])
}

/// All canonical shapes with exactly `n` ASes, sorted by canonical key (deterministic).
pub fn enumerate_shapes(n: usize, max_mult: usize) -> Vec<Shape> {
    let mut found: BTreeMap<Vec<u8>, Shape> = BTreeMap::new();
    if n == 0 {
        return vec![];
    }
    // ISD split: n1 >= n2 (ISD swap is an isomorphism), n2 == 0 => single ISD.
    for n2 in 0..=n / 2 {
        let n1 = n - n2;
        for c1 in 1..=n1 {
            let c2_range = if n2 == 0 { 0..=0 } else { 1..=n2 };
            for c2 in c2_range {
                if n1 == n2 && c2 > c1 {
                    continue; // covered by the swapped layout
                }
                let mut isd = vec![0u8; n];
                let mut core = vec![false; n];
                for i in 0..n {
                    isd[i] = (i >= n1) as u8;
                    core[i] = if i < n1 { i < c1 } else { i - n1 < c2 };
                }
                let cores: Vec<usize> = (0..n).filter(|&i| core[i]).collect();
                let noncores: Vec<usize> = (0..n).filter(|&i| !core[i]).collect();
                let cpairs: Vec<(usize, usize)> = cores.iter().flat_map(|&a| cores.iter().filter(move |&&b| b > a).map(move |&b| (a, b))).collect();
                let ppairs: Vec<(usize, usize)> = noncores.iter().flat_map(|&a| noncores.iter().filter(move |&&b| b > a).map(move |&b| (a, b))).collect();
                // parent candidates per non-core: cores of its ISD + earlier non-cores of its ISD
                let cand: Vec<Vec<usize>> = noncores
                    .iter()
                    .map(|&x| (0..n).filter(|&p| isd[p] == isd[x] && (core[p] || p < x)).collect())
                    .collect();
                let base = Shape { n, isd: isd.clone(), core: core.clone(), cm: vec![0; n * n], pc: vec![0; n * n], pe: vec![0; n * n] };
                // core multigraphs
                let radix = max_mult as u64 + 1;
                let total_c = radix.pow(cpairs.len() as u32);
                for code in 0..total_c {
                    let mut s = base.clone();
                    let mut c = code;
                    for &(a, b) in &cpairs {
                        let m = (c % radix) as u8;
                        c /= radix;
                        s.cm[a * n + b] = m;
                        s.cm[b * n + a] = m;
                    }
                    if !connected(&cores, n, &s.cm) {
                        continue;
                    }
                    // parent sets: product over non-cores of non-empty subsets of candidates
                    let mut choice: Vec<u32> = vec![1; noncores.len()];
                    'parents: loop {
                        let mut s2 = s.clone();
                        for (j, &x) in noncores.iter().enumerate() {
                            for (b, &p) in cand[j].iter().enumerate() {
                                if choice[j] >> b & 1 == 1 {
                                    s2.pc[p * n + x] = 1;
                                }
                            }
                        }
                        // peer subsets
                        for pmask in 0u32..(1 << ppairs.len()) {
                            let mut s3 = s2.clone();
                            for (b, &(x, y)) in ppairs.iter().enumerate() {
                                if pmask >> b & 1 == 1 {
                                    s3.pe[x * n + y] = 1;
                                    s3.pe[y * n + x] = 1;
                                }
                            }
                            let key = s3.canonical_key();
                            found.entry(key).or_insert(s3);
                        }
                        // next parent choice
                        let mut j = 0;
                        loop {
                            if j == noncores.len() {
                                break 'parents;
                            }
                            choice[j] += 1;
                            if choice[j] < (1 << cand[j].len()) {
                                break;
                            }
                            choice[j] = 1;
                            j += 1;
                        }
                    }
                }
            }
        }
    }
    found.into_values().collect()
}

/// Every shape with exactly `n` ASes in both numberings.
pub fn enumerate(n: usize, max_mult: usize) -> Vec<Topo> {
    let mut out = vec![];
    for (i, s) in enumerate_shapes(n, max_mult).iter().enumerate() {
        out.push(s.to_topo(&format!("n{n}-s{i}-seq"), Numbering::Seq));
        out.push(s.to_topo(&format!("n{n}-s{i}-eq"), Numbering::Eq));
    }
    out
}

/// Validate everything up to `max_n`; returns (n, shape count).
pub fn self_test(max_n: usize, max_mult: usize) -> Result<Vec<(usize, usize)>, String> {
    let mut counts = vec![];
    for n in 1..=max_n {
        let shapes = enumerate_shapes(n, max_mult);
        // canonical keys are pairwise distinct by construction; re-check determinism of the key
        for s in &shapes {
            for num in [Numbering::Seq, Numbering::Eq] {
                let t = s.to_topo("t", num);
                t.validate().map_err(|e| format!("n={n}: {e}: {t:?}"))?;
                if t.ases.len() != n {
                    return Err(format!("n={n}: wrong AS count"));
                }
            }
        }
        counts.push((n, shapes.len()));
    }
    for t in curated() {
        t.validate().map_err(|e| format!("curated {}: {e}", t.name))?;
    }
    Ok(counts)
}

// ---------------------------------------------------------------------------------------------
// curated larger shapes
// ---------------------------------------------------------------------------------------------

struct B {
    t: Topo,
    next_if: Vec<u16>,
}
impl B {
    fn new(name: &str) -> B {
        B { t: Topo::new(name), next_if: vec![] }
    }
    fn asn(&mut self, isd: u16, core: bool) -> usize {
        let i = self.t.ases.len();
        let asn = 0xff00_0000_0000u64 | ((isd as u64) << 8) | (i as u64 + 1);
        self.next_if.push(1);
        self.t.add_as(isd, asn, core)
    }
    fn link(&mut self, a: usize, b: usize, kind: LinkKind) {
        let (ia, ib) = (self.next_if[a], self.next_if[b]);
        self.next_if[a] += 1;
        self.next_if[b] += 1;
        self.t.add_link(a, ia, b, ib, kind);
    }
    fn core(&mut self, a: usize, b: usize) {
        self.link(a, b, LinkKind::Core)
    }
    fn pc(&mut self, p: usize, c: usize) {
        self.link(p, c, LinkKind::ParentChild)
    }
    fn peer(&mut self, a: usize, b: usize) {
        self.link(a, b, LinkKind::Peer)
    }
}

/// Named larger shapes, after the risky forms in the property texts.
pub fn curated() -> Vec<Topo> {
    let mut out = vec![];

    // 1. shortcut at a common non-core AS (two levels of common ancestors)
    {
        let mut b = B::new("cur-shortcut-common-noncore");
        let c = b.asn(1, true);
        let a = b.asn(1, false);
        let a2 = b.asn(1, false);
        let s = b.asn(1, false);
        let d = b.asn(1, false);
        let e = b.asn(1, false);
        b.pc(c, a);
        b.pc(a, a2);
        b.pc(a2, s);
        b.pc(a2, d);
        b.pc(a, e);
        b.pc(e, d);
        out.push(b.t);
    }
    // 2. on-path destination / source: a chain of 6 below one core, plus a second core
    {
        let mut b = B::new("cur-on-path-chain");
        let c = b.asn(1, true);
        let c2 = b.asn(1, true);
        b.core(c, c2);
        let mut prev = c;
        for _ in 0..6 {
            let x = b.asn(1, false);
            b.pc(prev, x);
            prev = x;
        }
        out.push(b.t);
    }
    // 3. peering at the leaf
    {
        let mut b = B::new("cur-peering-leaf");
        let c = b.asn(1, true);
        let a = b.asn(1, false);
        let bb = b.asn(1, false);
        let s = b.asn(1, false);
        let d = b.asn(1, false);
        b.pc(c, a);
        b.pc(c, bb);
        b.pc(a, s);
        b.pc(bb, d);
        b.peer(s, d);
        out.push(b.t);
    }
    // 4. peering in the middle
    {
        let mut b = B::new("cur-peering-middle");
        let c = b.asn(1, true);
        let a = b.asn(1, false);
        let bb = b.asn(1, false);
        let s = b.asn(1, false);
        let d = b.asn(1, false);
        let s2 = b.asn(1, false);
        let d2 = b.asn(1, false);
        b.pc(c, a);
        b.pc(c, bb);
        b.pc(a, s);
        b.pc(bb, d);
        b.pc(s, s2);
        b.pc(d, d2);
        b.peer(a, bb);
        out.push(b.t);
    }
    // 5. peering across ISDs
    {
        let mut b = B::new("cur-peering-cross-isd");
        let c1 = b.asn(1, true);
        let c2 = b.asn(2, true);
        let a = b.asn(1, false);
        let bb = b.asn(2, false);
        let s = b.asn(1, false);
        let d = b.asn(2, false);
        b.core(c1, c2);
        b.pc(c1, a);
        b.pc(c2, bb);
        b.pc(a, s);
        b.pc(bb, d);
        b.peer(a, bb);
        b.peer(s, d);
        out.push(b.t);
    }
    // 6. double parent (a leaf below a core and below a non-core; a diamond)
    {
        let mut b = B::new("cur-double-parent-diamond");
        let c1 = b.asn(1, true);
        let c2 = b.asn(1, true);
        let a = b.asn(1, false);
        let bb = b.asn(1, false);
        let s = b.asn(1, false);
        let d = b.asn(1, false);
        b.core(c1, c2);
        b.pc(c1, a);
        b.pc(c2, a);
        b.pc(c1, bb);
        b.pc(a, s);
        b.pc(bb, s);
        b.pc(c1, s);
        b.pc(a, d);
        out.push(b.t);
    }
    // 7. two cores with two parallel links
    {
        let mut b = B::new("cur-two-cores-parallel");
        let c1 = b.asn(1, true);
        let c2 = b.asn(1, true);
        let s = b.asn(1, false);
        let d = b.asn(1, false);
        b.core(c1, c2);
        b.core(c1, c2);
        b.pc(c1, s);
        b.pc(c2, d);
        out.push(b.t);
    }
    // 8. three-core ring over two ISDs with leaves
    {
        let mut b = B::new("cur-three-core-ring");
        let c1 = b.asn(1, true);
        let c2 = b.asn(1, true);
        let c3 = b.asn(2, true);
        let s = b.asn(1, false);
        let d = b.asn(2, false);
        let e = b.asn(1, false);
        b.core(c1, c2);
        b.core(c2, c3);
        b.core(c3, c1);
        b.pc(c1, s);
        b.pc(c3, d);
        b.pc(c2, e);
        b.pc(c1, e);
        out.push(b.t);
    }
    // 9. parallel parent-child links and a double peering link, peering with the own parent
    {
        let mut b = B::new("cur-parallel-child-and-peer-links");
        let c = b.asn(1, true);
        let a = b.asn(1, false);
        let s = b.asn(1, false);
        let d = b.asn(1, false);
        b.pc(c, a);
        b.pc(c, a);
        b.pc(a, s);
        b.pc(a, s);
        b.pc(c, d);
        b.peer(s, d);
        b.peer(s, d);
        b.peer(a, s);
        out.push(b.t);
    }
    // 10. four-core full mesh, two ISDs, one leaf each
    {
        let mut b = B::new("cur-four-core-mesh");
        let c: Vec<usize> = vec![b.asn(1, true), b.asn(1, true), b.asn(2, true), b.asn(2, true)];
        for i in 0..4 {
            for j in i + 1..4 {
                b.core(c[i], c[j]);
            }
        }
        let s = b.asn(1, false);
        let d = b.asn(2, false);
        b.pc(c[0], s);
        b.pc(c[1], s);
        b.pc(c[2], d);
        b.pc(c[3], d);
        out.push(b.t);
    }
    // 11. peering chain: the peer of a peer, and peering between siblings at two depths
    {
        let mut b = B::new("cur-peering-ladder");
        let c = b.asn(1, true);
        let a = b.asn(1, false);
        let bb = b.asn(1, false);
        let cc = b.asn(1, false);
        let s = b.asn(1, false);
        let d = b.asn(1, false);
        let e = b.asn(1, false);
        b.pc(c, a);
        b.pc(c, bb);
        b.pc(c, cc);
        b.pc(a, s);
        b.pc(bb, d);
        b.pc(cc, e);
        b.peer(a, bb);
        b.peer(bb, cc);
        b.peer(s, d);
        b.peer(d, e);
        b.peer(s, bb);
        out.push(b.t);
    }
    // 12. the repository's own test topology (combinator/test_graph.rs default_graph), same
    //     interface ids.
    out.push(repo_default());
    out
}

/// Copy of `default_graph()` of /repo .../combinator/test_graph.rs (scionproto default.topo).
pub fn repo_default() -> Topo {
    let mut t = Topo::new("cur-repo-default-graph");
    let mut idx = BTreeMap::new();
    let mut add = |t: &mut Topo, isd: u16, asn_low: u64, core: bool| {
        let i = t.add_as(isd, 0xff00_0000_0000 | asn_low, core);
        idx.insert((isd, asn_low), i);
    };
    for (isd, a, core) in [
        (1, 0x110, true),
        (1, 0x120, true),
        (1, 0x130, true),
        (2, 0x210, true),
        (2, 0x220, true),
        (1, 0x111, false),
        (1, 0x112, false),
        (1, 0x121, false),
        (1, 0x122, false),
        (1, 0x131, false),
        (1, 0x132, false),
        (1, 0x133, false),
        (2, 0x211, false),
        (2, 0x212, false),
        (2, 0x221, false),
        (2, 0x222, false),
    ] {
        add(&mut t, isd, a, core);
    }
    let ix = |a: u64| -> usize { idx[&((a >> 8) as u16, a)] };
    let core_links = [(0x110, 1, 0x120, 6), (0x110, 2, 0x130, 104), (0x110, 3, 0x210, 453), (0x120, 1, 0x130, 105), (0x120, 2, 0x220, 501), (0x120, 3, 0x220, 502), (0x210, 450, 0x220, 503)];
    let child_links = [
        (0x120, 4, 0x121, 3),
        (0x120, 5, 0x111, 104),
        (0x130, 111, 0x131, 479),
        (0x130, 112, 0x111, 105),
        (0x130, 113, 0x112, 495),
        (0x111, 103, 0x112, 494),
        (0x121, 2, 0x122, 2),
        (0x131, 478, 0x132, 2),
        (0x132, 1, 0x133, 2),
        (0x210, 451, 0x211, 7),
        (0x210, 452, 0x211, 8),
        (0x220, 500, 0x221, 2),
        (0x211, 2, 0x212, 201),
        (0x211, 3, 0x212, 200),
        (0x211, 4, 0x222, 301),
        (0x221, 1, 0x222, 302),
    ];
    let peer_links = [(0x111, 100, 0x121, 4), (0x111, 101, 0x211, 5), (0x111, 102, 0x211, 6), (0x121, 1, 0x131, 480), (0x122, 1, 0x133, 1), (0x211, 1, 0x221, 3)];
    for (a, ai, b, bi) in core_links {
        t.add_link(ix(a), ai, ix(b), bi, LinkKind::Core);
    }
    for (a, ai, b, bi) in child_links {
        t.add_link(ix(a), ai, ix(b), bi, LinkKind::ParentChild);
    }
    for (a, ai, b, bi) in peer_links {
        t.add_link(ix(a), ai, ix(b), bi, LinkKind::Peer);
    }
    t
}

#[cfg(test)]
mod tests {
    use super::*;
    #[test]
    fn counts() {
        let max_n = std::env::var("TOPO_MAX_N").ok().and_then(|s| s.parse().ok()).unwrap_or(4);
        let c = self_test(max_n, 2).unwrap();
        println!("{c:?}");
        assert_eq!(c[0], (1, 1));
    }
}
