//! R-topo: SCION topologies as plain data (shared by C01, C04, C13, C19).
//!
//! This file defines the data model only; the enumerator (`enumerate`), the beaconing reference
//! (R-seg) and the combination reference (R-combine) live in sibling modules and work on these
//! types. Nothing here depends on a crate of /repo.

/// Index of an AS inside [`Topo::ases`].
pub type AsIdx = usize;

#[derive(Clone, Debug, PartialEq, Eq, PartialOrd, Ord, Hash)]
pub struct AsNode {
    pub isd: u16,
    /// 48-bit AS number.
    pub asn: u64,
    pub core: bool,
    /// Hop-field (forwarding) key of this AS; distinct per AS.
    pub key: [u8; 16],
    /// AS-internal MTU.
    pub mtu: u16,
}
impl AsNode {
    pub fn ia(&self) -> u64 {
        ((self.isd as u64) << 48) | self.asn
    }
}

#[derive(Clone, Copy, Debug, PartialEq, Eq, PartialOrd, Ord, Hash)]
pub enum LinkKind {
    /// core AS <-> core AS
    Core,
    /// `a` is the parent, `b` the child
    ParentChild,
    /// non-core <-> non-core peering link
    Peer,
}

#[derive(Clone, Debug, PartialEq, Eq, PartialOrd, Ord, Hash)]
pub struct Link {
    pub a: AsIdx,
    /// interface id of this link at `a` (unique within `a`, non-zero)
    pub a_if: u16,
    pub b: AsIdx,
    /// interface id of this link at `b`
    pub b_if: u16,
    pub kind: LinkKind,
    pub mtu: u16,
}

#[derive(Clone, Debug, PartialEq, Eq, PartialOrd, Ord, Hash, Default)]
pub struct Topo {
    pub name: String,
    pub ases: Vec<AsNode>,
    pub links: Vec<Link>,
}

/// How the local AS sees the neighbour over an interface.
#[derive(Clone, Copy, Debug, PartialEq, Eq, PartialOrd, Ord, Hash)]
pub enum NeighbourRole {
    Core,
    Parent,
    Child,
    Peer,
}

impl Topo {
    pub fn new(name: &str) -> Topo {
        Topo { name: name.to_string(), ases: vec![], links: vec![] }
    }
    /// Add an AS; key and MTU are derived deterministically from the index so they are distinct.
    pub fn add_as(&mut self, isd: u16, asn: u64, core: bool) -> AsIdx {
        let i = self.ases.len();
        let mut key = [0u8; 16];
        for (k, b) in key.iter_mut().enumerate() {
            *b = (0x11u8).wrapping_mul(i as u8 + 1).wrapping_add(k as u8 * 7);
        }
        self.ases.push(AsNode { isd, asn, core, key, mtu: 1400 + 10 * i as u16 });
        i
    }
    pub fn add_link(&mut self, a: AsIdx, a_if: u16, b: AsIdx, b_if: u16, kind: LinkKind) {
        let mtu = 1300 + 7 * self.links.len() as u16;
        self.links.push(Link { a, a_if, b, b_if, kind, mtu });
    }
    pub fn as_by_ia(&self, ia: u64) -> Option<AsIdx> {
        self.ases.iter().position(|a| a.ia() == ia)
    }
    /// The link attached to interface `ifid` of AS `a`, with (neighbour AS, neighbour interface,
    /// role of the neighbour as seen from `a`, link index).
    pub fn neighbour(&self, a: AsIdx, ifid: u16) -> Option<(AsIdx, u16, NeighbourRole, usize)> {
        for (li, l) in self.links.iter().enumerate() {
            if l.a == a && l.a_if == ifid {
                let role = match l.kind {
                    LinkKind::Core => NeighbourRole::Core,
                    LinkKind::ParentChild => NeighbourRole::Child,
                    LinkKind::Peer => NeighbourRole::Peer,
                };
                return Some((l.b, l.b_if, role, li));
            }
            if l.b == a && l.b_if == ifid {
                let role = match l.kind {
                    LinkKind::Core => NeighbourRole::Core,
                    LinkKind::ParentChild => NeighbourRole::Parent,
                    LinkKind::Peer => NeighbourRole::Peer,
                };
                return Some((l.a, l.a_if, role, li));
            }
        }
        None
    }
    /// All interfaces of AS `a`: (ifid, neighbour, neighbour ifid, role, link index).
    pub fn interfaces(&self, a: AsIdx) -> Vec<(u16, AsIdx, u16, NeighbourRole, usize)> {
        let mut v = vec![];
        for l in &self.links {
            if l.a == a {
                let (n, nif, role, li) = self.neighbour(a, l.a_if).unwrap();
                v.push((l.a_if, n, nif, role, li));
            }
            if l.b == a {
                let (n, nif, role, li) = self.neighbour(a, l.b_if).unwrap();
                v.push((l.b_if, n, nif, role, li));
            }
        }
        v.sort();
        v.dedup();
        v
    }
    /// Structural sanity (used by the enumerator's self-test): unique non-zero interface ids per AS,
    /// link kinds consistent with core flags, every ISD has a core AS.
    pub fn validate(&self) -> Result<(), String> {
        for (i, _) in self.ases.iter().enumerate() {
            let mut ids: Vec<u16> = vec![];
            for l in &self.links {
                if l.a == i {
                    ids.push(l.a_if);
                }
                if l.b == i {
                    ids.push(l.b_if);
                }
            }
            if ids.iter().any(|x| *x == 0) {
                return Err(format!("AS {i}: interface id 0"));
            }
            let n = ids.len();
            ids.sort();
            ids.dedup();
            if ids.len() != n {
                return Err(format!("AS {i}: duplicate interface id"));
            }
        }
        for l in &self.links {
            if l.a == l.b {
                return Err("self link".into());
            }
            let (ca, cb) = (self.ases[l.a].core, self.ases[l.b].core);
            match l.kind {
                LinkKind::Core if !(ca && cb) => return Err("core link between non-cores".into()),
                LinkKind::ParentChild if cb => return Err("child is core".into()),
                LinkKind::ParentChild if self.ases[l.a].isd != self.ases[l.b].isd => return Err("parent-child across ISDs".into()),
                LinkKind::Peer if ca || cb => return Err("peering with a core AS".into()),
                _ => {}
            }
        }
        let mut isds: Vec<u16> = self.ases.iter().map(|a| a.isd).collect();
        isds.sort();
        isds.dedup();
        for isd in isds {
            if !self.ases.iter().any(|a| a.isd == isd && a.core) {
                return Err(format!("ISD {isd} without core"));
            }
        }
        Ok(())
    }
}
