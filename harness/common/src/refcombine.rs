//! R-combine: the SCION segment-combination rules as a direct enumerator. Written from the SCION
//! control-plane documentation ("path construction": up/core/down combination, shortcuts, on-path,
//! peering) - it builds no graph and performs no search; it simply lists every rule instance.
//! Depends on no crate of /repo.
//!
//! PUBLIC API:
//!   `combine(topo, src, dst, ups, cores, downs) -> BTreeMap<HopSeq, RPath>`
//!   `HopSeq = Vec<(AsIdx, ingress ifid, egress ifid)>` in travel order (ingress 0 at src, egress 0 at dst)
//!   `RPath { hops, kinds, links, mtu, expiries, seg_counts, shapes }`, `RPath::latest_expiry()`, `interfaces(&HopSeq)`,
//!   `PathKind` (+ `name()`).
//!
//! Rules (a path uses at most one up, one core, one down segment, in this order):
//!   up-only      dst lies on an up-segment of src (src = leaf): travel leaf -> dst against construction.
//!   down-only    src lies on a down-segment of dst (dst = leaf).
//!   up+down@core first AS of the up-segment == first AS of the down-segment (a core AS).
//!   shortcut     a non-core AS X appears in the up-segment (index i) and in the down-segment (index j):
//!                leaf .. u_i = X = d_j .. leaf; each common AS gives one candidate.
//!   peering      up entry i has a peer entry (peer AS Y, peer if b, local if a), the down-segment has
//!                AS Y at index j with the mirrored peer entry (peer u_i, peer if a, local if b):
//!                leaf .. u_i -(a,b)-> d_j .. leaf; uses the PEER hop fields of u_i and d_j.
//!   up+core, core+down, up+core+down, core-only: a core segment joins its two end ASes and may be
//!                travelled in either direction.
//!   Candidates visiting an AS twice are dropped. The result is the SET of interface sequences.
//!   For each sequence: links = number of inter-AS links; mtu = min over the MTUs of all ASes on the
//!   path and of all traversed links (looked up in the topology, not in the segments); expiries =
//!   for every derivation (choice of segments) the earliest expiry over the hop fields it uses.
use std::collections::{BTreeMap, BTreeSet};

use crate::{
    refseg::{RPeer, RSegment, expiry_secs},
    reftopo::{AsIdx, Topo},
};

pub type HopSeq = Vec<(AsIdx, u16, u16)>;

#[derive(Clone, Copy, Debug, PartialEq, Eq, PartialOrd, Ord, Hash)]
pub enum PathKind {
    UpOnly,
    DownOnly,
    UpDownAtCore,
    Shortcut,
    Peering,
    UpCore,
    CoreDown,
    UpCoreDown,
    CoreOnly,
}
impl PathKind {
    pub fn name(self) -> &'static str {
        match self {
            PathKind::UpOnly => "up-only(on-path-dst)",
            PathKind::DownOnly => "down-only(on-path-src)",
            PathKind::UpDownAtCore => "up+down@core",
            PathKind::Shortcut => "shortcut@non-core",
            PathKind::Peering => "peering",
            PathKind::UpCore => "up+core",
            PathKind::CoreDown => "core+down",
            PathKind::UpCoreDown => "up+core+down",
            PathKind::CoreOnly => "core-only",
        }
    }
}

#[derive(Clone, Debug, PartialEq, Eq)]
pub struct RPath {
    pub hops: HopSeq,
    /// every rule that derives this interface sequence
    pub kinds: BTreeSet<PathKind>,
    /// number of inter-AS links (= hops.len() - 1)
    pub links: usize,
    pub mtu: u16,
    /// earliest hop expiry of every derivation, sorted ascending
    pub expiries: Vec<u32>,
    /// segment count of the derivations (1..=3), sorted, deduplicated
    pub seg_counts: Vec<usize>,
    /// for every derivation the number of hop fields taken from each segment, in travel order
    /// (= the SegLen values of the data-plane path that derivation produces)
    pub shapes: BTreeSet<Vec<usize>>,
}
impl RPath {
    /// keep-latest rule: among derivations of the same interface sequence the one expiring last.
    pub fn latest_expiry(&self) -> u32 {
        *self.expiries.last().unwrap()
    }
}

/// `[(src, eg), (as1, in), (as1, eg), .., (dst, in)]` - the interface list SCION path metadata carries.
pub fn interfaces(h: &HopSeq) -> Vec<(AsIdx, u16)> {
    let mut v = vec![];
    for (i, &(a, ing, eg)) in h.iter().enumerate() {
        if i > 0 {
            v.push((a, ing));
        }
        if i + 1 < h.len() {
            v.push((a, eg));
        }
    }
    v
}

/// A run of hops in travel order plus the absolute expiries of the hop fields it uses.
#[derive(Clone)]
struct Piece {
    hops: HopSeq,
    exp: Vec<u32>,
    /// hop fields per segment
    segs: Vec<usize>,
}

/// Up-segment travelled from its leaf up to entry `i` (against construction direction).
fn up_piece(u: &RSegment, i: usize, peer: Option<&RPeer>) -> Piece {
    let mut p = Piece { hops: vec![], exp: vec![], segs: vec![u.entries.len() - i] };
    for idx in (i..u.entries.len()).rev() {
        let e = &u.entries[idx];
        if idx == i {
            match peer {
                Some(pe) => {
                    p.hops.push((e.as_idx, e.cons_egress, pe.local_if));
                    p.exp.push(expiry_secs(u.timestamp, pe.exp_time));
                }
                None => {
                    p.hops.push((e.as_idx, e.cons_egress, 0));
                    p.exp.push(expiry_secs(u.timestamp, e.exp_time));
                }
            }
        } else {
            p.hops.push((e.as_idx, e.cons_egress, e.cons_ingress));
            p.exp.push(expiry_secs(u.timestamp, e.exp_time));
        }
    }
    p
}

/// Down-segment travelled from entry `j` to its leaf (in construction direction).
fn down_piece(d: &RSegment, j: usize, peer: Option<&RPeer>) -> Piece {
    let mut p = Piece { hops: vec![], exp: vec![], segs: vec![d.entries.len() - j] };
    for idx in j..d.entries.len() {
        let e = &d.entries[idx];
        if idx == j {
            match peer {
                Some(pe) => {
                    p.hops.push((e.as_idx, pe.local_if, e.cons_egress));
                    p.exp.push(expiry_secs(d.timestamp, pe.exp_time));
                }
                None => {
                    p.hops.push((e.as_idx, 0, e.cons_egress));
                    p.exp.push(expiry_secs(d.timestamp, e.exp_time));
                }
            }
        } else {
            p.hops.push((e.as_idx, e.cons_ingress, e.cons_egress));
            p.exp.push(expiry_secs(d.timestamp, e.exp_time));
        }
    }
    p
}

/// Whole core segment, in construction direction (`forward`) or against it.
fn core_piece(c: &RSegment, forward: bool) -> Piece {
    let mut p = Piece { hops: vec![], exp: vec![], segs: vec![c.entries.len()] };
    let n = c.entries.len();
    for k in 0..n {
        let e = &c.entries[if forward { k } else { n - 1 - k }];
        p.hops.push(if forward { (e.as_idx, e.cons_ingress, e.cons_egress) } else { (e.as_idx, e.cons_egress, e.cons_ingress) });
        p.exp.push(expiry_secs(c.timestamp, e.exp_time));
    }
    p
}

/// Join at a common AS (segment change): the AS appears once, entered as in `a`, left as in `b`.
fn join_xover(a: &Piece, b: &Piece) -> Option<Piece> {
    let (la, fb) = (*a.hops.last()?, *b.hops.first()?);
    if la.0 != fb.0 {
        return None;
    }
    let mut hops = a.hops.clone();
    hops.pop();
    hops.push((la.0, la.1, fb.2));
    hops.extend_from_slice(&b.hops[1..]);
    let mut exp = a.exp.clone();
    exp.extend_from_slice(&b.exp);
    let mut segs = a.segs.clone();
    segs.extend_from_slice(&b.segs);
    Some(Piece { hops, exp, segs })
}

/// Join over a peering link: plain concatenation.
fn join_peer(a: &Piece, b: &Piece) -> Piece {
    let mut hops = a.hops.clone();
    hops.extend_from_slice(&b.hops);
    let mut exp = a.exp.clone();
    exp.extend_from_slice(&b.exp);
    let mut segs = a.segs.clone();
    segs.extend_from_slice(&b.segs);
    Piece { hops, exp, segs }
}

/// MTU of a hop sequence from the topology: every AS on it and every link between consecutive hops.
/// Returns Err when the sequence does not follow links of the topology.
pub fn topo_mtu(topo: &Topo, hops: &HopSeq) -> Result<u16, String> {
    let mut mtu = u16::MAX;
    for (k, &(a, _ing, eg)) in hops.iter().enumerate() {
        mtu = mtu.min(topo.ases[a].mtu);
        if k + 1 < hops.len() {
            let (n, nif, _, li) = topo.neighbour(a, eg).ok_or_else(|| format!("AS {a} has no interface {eg}"))?;
            let nx = hops[k + 1];
            if n != nx.0 || nif != nx.1 {
                return Err(format!("interface {a}#{eg} leads to {n}#{nif}, sequence says {}#{}", nx.0, nx.1));
            }
            mtu = mtu.min(topo.links[li].mtu);
        }
    }
    Ok(mtu)
}

/// All end-to-end paths from `src` to `dst` obtainable from the given segments.
/// `ups`: intra-ISD segments whose leaf is `src`; `downs`: whose leaf is `dst`; `cores`: core segments
/// (either beaconing direction). Segments not matching these roles are simply never applicable.
pub fn combine(topo: &Topo, src: AsIdx, dst: AsIdx, ups: &[&RSegment], cores: &[&RSegment], downs: &[&RSegment]) -> BTreeMap<HopSeq, RPath> {
    let mut out: BTreeMap<HopSeq, RPath> = BTreeMap::new();
    if src == dst {
        return out;
    }
    let mut emit = |kind: PathKind, nsegs: usize, p: Piece| {
        let hops = &p.hops;
        if hops.first().map(|h| h.0) != Some(src) || hops.last().map(|h| h.0) != Some(dst) {
            return;
        }
        // no AS twice
        let mut seen: Vec<AsIdx> = hops.iter().map(|h| h.0).collect();
        seen.sort();
        let n = seen.len();
        seen.dedup();
        if seen.len() != n {
            return;
        }
        let e = *p.exp.iter().min().unwrap();
        let mtu = topo_mtu(topo, hops).unwrap_or_else(|m| panic!("R-combine produced a sequence off the topology: {m}: {hops:?}"));
        let r = out.entry(hops.clone()).or_insert_with(|| RPath { hops: hops.clone(), kinds: BTreeSet::new(), links: hops.len() - 1, mtu, expiries: vec![], seg_counts: vec![], shapes: BTreeSet::new() });
        r.shapes.insert(p.segs.clone());
        r.kinds.insert(kind);
        r.expiries.push(e);
        r.expiries.sort();
        r.seg_counts.push(nsegs);
        r.seg_counts.sort();
        r.seg_counts.dedup();
    };

    let ups: Vec<&RSegment> = ups.iter().copied().filter(|u| u.entries.len() >= 2 && u.last_as() == src).collect();
    let downs: Vec<&RSegment> = downs.iter().copied().filter(|d| d.entries.len() >= 2 && d.last_as() == dst).collect();
    let cores: Vec<&RSegment> = cores.iter().copied().filter(|c| c.entries.len() >= 2).collect();

    // one segment
    for u in &ups {
        for i in 0..u.entries.len() - 1 {
            if u.entries[i].as_idx == dst {
                emit(PathKind::UpOnly, 1, up_piece(u, i, None));
            }
        }
    }
    for d in &downs {
        for j in 0..d.entries.len() - 1 {
            if d.entries[j].as_idx == src {
                emit(PathKind::DownOnly, 1, down_piece(d, j, None));
            }
        }
    }
    for c in &cores {
        for fwd in [true, false] {
            emit(PathKind::CoreOnly, 1, core_piece(c, fwd));
        }
    }
    // up + down
    for u in &ups {
        for d in &downs {
            let (k, m) = (u.entries.len() - 1, d.entries.len() - 1);
            // joined at the common core
            if let Some(p) = join_xover(&up_piece(u, 0, None), &down_piece(d, 0, None)) {
                emit(PathKind::UpDownAtCore, 2, p);
            }
            // shortcut at every common non-core AS
            for i in 1..k {
                for j in 1..m {
                    if u.entries[i].as_idx == d.entries[j].as_idx {
                        if let Some(p) = join_xover(&up_piece(u, i, None), &down_piece(d, j, None)) {
                            emit(PathKind::Shortcut, 2, p);
                        }
                    }
                }
            }
            // peering link between an AS of the up- and an AS of the down-segment
            for i in 1..=k {
                for j in 1..=m {
                    let (ue, de) = (&u.entries[i], &d.entries[j]);
                    for pu in &ue.peers {
                        for pd in &de.peers {
                            if pu.peer_as == de.as_idx && pd.peer_as == ue.as_idx && pu.peer_if == pd.local_if && pd.peer_if == pu.local_if {
                                emit(PathKind::Peering, 2, join_peer(&up_piece(u, i, Some(pu)), &down_piece(d, j, Some(pd))));
                            }
                        }
                    }
                }
            }
        }
    }
    // up + core, core + down, up + core + down
    for c in &cores {
        for fwd in [true, false] {
            let cp = core_piece(c, fwd);
            for u in &ups {
                if let Some(p) = join_xover(&up_piece(u, 0, None), &cp) {
                    emit(PathKind::UpCore, 2, p.clone());
                    for d in &downs {
                        if let Some(q) = join_xover(&p, &down_piece(d, 0, None)) {
                            emit(PathKind::UpCoreDown, 3, q);
                        }
                    }
                }
            }
            for d in &downs {
                if let Some(p) = join_xover(&cp, &down_piece(d, 0, None)) {
                    emit(PathKind::CoreDown, 2, p);
                }
            }
        }
    }
    out
}

#[cfg(test)]
mod tests {
    use super::*;
    use crate::{refseg, reftopo_enum};

    fn paths(t: &Topo, s: usize, d: usize) -> BTreeMap<HopSeq, RPath> {
        let segs = refseg::beacon(t, 1000);
        let ps = segs.plan_sets(t, s, d);
        let ups: Vec<&RSegment> = ps.up.iter().map(|&i| &segs.up_down[i]).collect();
        let downs: Vec<&RSegment> = ps.down.iter().map(|&i| &segs.up_down[i]).collect();
        let cores: Vec<&RSegment> = ps.core.iter().map(|&i| &segs.core[i]).collect();
        combine(t, s, d, &ups, &cores, &downs)
    }

    #[test]
    fn peering_leaf() {
        let cur = reftopo_enum::curated();
        let t = cur.iter().find(|t| t.name == "cur-peering-leaf").unwrap();
        // ASes: 0 core, 1 a, 2 b, 3 s, 4 d; s~d peer
        let p = paths(t, 3, 4);
        let kinds: BTreeSet<PathKind> = p.values().flat_map(|r| r.kinds.iter().copied()).collect();
        assert!(kinds.contains(&PathKind::Peering));
        assert!(kinds.contains(&PathKind::UpDownAtCore));
        assert_eq!(p.len(), 2);
        let direct = p.values().find(|r| r.links == 1).unwrap();
        assert_eq!(direct.hops.len(), 2);
    }

    #[test]
    fn repo_default_known_cases() {
        // expected values taken from the scionproto combinator test-suite ("00 simple up-core-down")
        let t = reftopo_enum::repo_default();
        let ix = |isd: u16, a: u64| t.as_by_ia(((isd as u64) << 48) | 0xff00_0000_0000 | a).unwrap();
        let p = paths(&t, ix(1, 0x131), ix(1, 0x111));
        // contains 131#479 130#111 130#105 120#1 120#5 111#104
        let want = vec![(ix(1, 0x131), 479), (ix(1, 0x130), 111), (ix(1, 0x130), 105), (ix(1, 0x120), 1), (ix(1, 0x120), 5), (ix(1, 0x111), 104)];
        assert!(p.keys().any(|h| interfaces(h) == want));
    }
}
