//! R-mac: hop-field MAC per the SCION dataplane specification.
//! MAC input block (16 B): 0(16) | Beta/SegID(16) | Timestamp(32) | 0(8) | ExpTime(8) |
//! ConsIngress(16) | ConsEgress(16) | 0(16); MAC = AES-128-CMAC(key, block)[0..6].
//! Chaining: beta_{i+1} = beta_i XOR MAC_i[0..2]. Peer entries of ASEntry i are computed with
//! beta_{i+1} (scionproto `seg/extender.go`: `peerBeta = hopBeta ^ hopMAC[:2]`).
use aes::Aes128;
use cmac::{Cmac, Mac};

pub fn mac_input(beta: u16, timestamp: u32, exp_time: u8, cons_ingress: u16, cons_egress: u16) -> [u8; 16] {
    let mut b = [0u8; 16];
    b[2..4].copy_from_slice(&beta.to_be_bytes());
    b[4..8].copy_from_slice(&timestamp.to_be_bytes());
    b[9] = exp_time;
    b[10..12].copy_from_slice(&cons_ingress.to_be_bytes());
    b[12..14].copy_from_slice(&cons_egress.to_be_bytes());
    b
}

pub fn full_mac(key: &[u8; 16], beta: u16, timestamp: u32, exp_time: u8, cons_ingress: u16, cons_egress: u16) -> [u8; 16] {
    let mut m = <Cmac<Aes128> as Mac>::new_from_slice(key).unwrap();
    m.update(&mac_input(beta, timestamp, exp_time, cons_ingress, cons_egress));
    m.finalize().into_bytes().into()
}

pub fn hop_mac(key: &[u8; 16], beta: u16, timestamp: u32, exp_time: u8, cons_ingress: u16, cons_egress: u16) -> [u8; 6] {
    full_mac(key, beta, timestamp, exp_time, cons_ingress, cons_egress)[..6].try_into().unwrap()
}

pub fn beta_step(beta: u16, mac: &[u8; 6]) -> u16 {
    beta ^ u16::from_be_bytes([mac[0], mac[1]])
}
