//! Helpers shared by the C11 and C12 checks of this package: a thread-local panic recorder (the
//! enumerations run on a rayon pool, a process-global "last panic" would mix threads up), panic
//! classification (production panic / arithmetic overflow / `debug_assert!`), and a per-task
//! accumulator that is merged deterministically (minimal witness per violation class).
use std::{cell::RefCell, collections::BTreeMap};

use vpc::Value;

thread_local! {
    static LAST: RefCell<(String, String)> = const { RefCell::new((String::new(), String::new())) };
}

/// Silence the default hook; remember (location, message) of the last panic of *this thread*.
pub fn install_panic_hook() {
    std::panic::set_hook(Box::new(|info| {
        let loc = info.location().map(|l| format!("{}:{}", l.file(), l.line())).unwrap_or_default();
        let msg = if let Some(s) = info.payload().downcast_ref::<&str>() {
            s.to_string()
        } else if let Some(s) = info.payload().downcast_ref::<String>() {
            s.clone()
        } else {
            String::new()
        };
        LAST.with(|c| *c.borrow_mut() = (loc, msg));
    }));
}

pub fn last_panic() -> (String, String) {
    LAST.with(|c| c.borrow().clone())
}

/// Canonical class of the last panic of this thread:
/// `debug-assert@<file:line>`  the source line at the panic location invokes `debug_assert*!`
///                             (fires only with debug assertions on: NOT a production panic),
/// `overflow-panic@<file:line>` arithmetic overflow (panics only with overflow checks on; wraps
///                             silently in a plain release build),
/// `panic@<file:line>`         everything else (a production panic).
/// The path is cut at `crates/` so that the class is the same in a mutation sandbox.
pub fn panic_class() -> String {
    let (loc, msg) = last_panic();
    let short = match loc.find("crates/") {
        Some(i) => loc[i..].to_string(),
        None => loc.clone(),
    };
    let mut kind = "panic";
    if msg.starts_with("attempt to ") && msg.contains("overflow") {
        kind = "overflow-panic";
    } else if let Some((file, line)) = loc.rsplit_once(':') {
        if let (Ok(text), Ok(n)) = (std::fs::read_to_string(file), line.parse::<usize>()) {
            if let Some(l) = text.lines().nth(n.saturating_sub(1)) {
                if l.contains("debug_assert") {
                    kind = "debug-assert";
                }
            }
        }
    }
    format!("{kind}@{short}")
}

pub struct VEntry {
    pub count: u64,
    pub what: String,
    pub witness: Value,
    /// (weight, tie-break) - the smallest key wins, independent of the order tasks finish in
    pub key: (u64, u64),
}

/// Per-task result accumulator; `merge` is commutative, so the final content does not depend on
/// the scheduling of the rayon pool.
#[derive(Default)]
pub struct Acc {
    pub outcomes: BTreeMap<String, u64>,
    pub viols: BTreeMap<String, VEntry>,
    pub counters: BTreeMap<&'static str, u64>,
    /// hashes of distinct items (states / non-trivial evaluations); sorted+deduped at the end
    pub hashes: Vec<u64>,
    pub samples: BTreeMap<&'static str, Vec<(u64, Value)>>,
    dedup_floor: usize,
}

impl Acc {
    pub fn outcome(&mut self, k: &str) {
        self.outcome_n(k, 1)
    }
    pub fn outcome_n(&mut self, k: &str, n: u64) {
        if let Some(v) = self.outcomes.get_mut(k) {
            *v += n;
        } else {
            self.outcomes.insert(k.to_string(), n);
        }
    }
    pub fn add(&mut self, k: &'static str, n: u64) {
        *self.counters.entry(k).or_default() += n;
    }
    pub fn max(&mut self, k: &'static str, n: u64) {
        let e = self.counters.entry(k).or_default();
        if n > *e {
            *e = n;
        }
    }
    pub fn get(&self, k: &'static str) -> u64 {
        self.counters.get(k).copied().unwrap_or(0)
    }
    /// Record a violating case. `key` orders witnesses (smaller = more minimal); the witness JSON
    /// is only built when this case becomes the class's best witness so far.
    pub fn viol(&mut self, class: &str, key: (u64, u64), what: impl FnOnce() -> String, witness: impl FnOnce() -> Value) {
        match self.viols.get_mut(class) {
            Some(e) => {
                e.count += 1;
                if key < e.key {
                    e.key = key;
                    e.what = what();
                    e.witness = witness();
                }
            }
            None => {
                self.viols.insert(class.to_string(), VEntry { count: 1, what: what(), witness: witness(), key });
            }
        }
    }
    /// Keep up to `cap` written-out cases per `kind`, those with the smallest `order` (deterministic).
    pub fn sample(&mut self, kind: &'static str, order: u64, cap: usize, v: impl FnOnce() -> Value) {
        let s = self.samples.entry(kind).or_default();
        if s.len() < cap || s.iter().any(|(o, _)| *o > order) {
            s.push((order, v()));
            s.sort_by_key(|(o, _)| *o);
            s.truncate(cap);
        }
    }
    pub fn merge(&mut self, o: Acc) {
        for (k, n) in o.outcomes {
            *self.outcomes.entry(k).or_default() += n;
        }
        for (k, n) in o.counters {
            let e = self.counters.entry(k).or_default();
            if k.starts_with("max_") {
                *e = (*e).max(n);
            } else {
                *e += n;
            }
        }
        for (c, v) in o.viols {
            match self.viols.get_mut(&c) {
                Some(e) => {
                    e.count += v.count;
                    if v.key < e.key {
                        e.key = v.key;
                        e.what = v.what;
                        e.witness = v.witness;
                    }
                }
                None => {
                    self.viols.insert(c, v);
                }
            }
        }
        self.hashes.extend(o.hashes);
        if self.hashes.len() > 4_000_000usize.max(2 * self.dedup_floor) {
            self.hashes.sort_unstable();
            self.hashes.dedup();
            self.dedup_floor = self.hashes.len();
        }
        for (k, v) in o.samples {
            let s = self.samples.entry(k).or_default();
            let cap = s.len().max(v.len());
            s.extend(v);
            s.sort_by_key(|(o, _)| *o);
            s.truncate(cap);
        }
    }
    pub fn distinct(&mut self) -> u64 {
        self.hashes.sort_unstable();
        self.hashes.dedup();
        self.hashes.len() as u64
    }
    /// Hand everything to the run: outcome classes, then per class the minimal witness first
    /// (the run keeps the first witness of a class) followed by the remaining count.
    pub fn flush(&mut self, run: &vpc::Run) {
        for (k, n) in std::mem::take(&mut self.outcomes) {
            run.outcome_n(&k, n);
        }
        for (class, e) in std::mem::take(&mut self.viols) {
            // The run keeps the shortest serialised witness of a class and has no "add n" call:
            // the remaining occurrences are reported with a filler that is longer than the
            // minimal witness, so that it can never replace it.
            let filler = Value::String("-".repeat(vpc::serde_json::to_string_pretty(&e.witness).map(|s| s.len()).unwrap_or(0)));
            run.violation(&class, &e.what, e.witness);
            for _ in 1..e.count {
                run.violation(&class, &e.what, filler.clone());
            }
        }
        for (_, v) in std::mem::take(&mut self.samples) {
            for (_, s) in v {
                run.sample(12, || s);
            }
        }
    }
}
