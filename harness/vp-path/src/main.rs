mod c11;
mod util;
mod c12;

fn main() {
    let args = vpc::Args::parse();
    match args.prop.as_str() {
        "C11" => c11::run(&args),
        "C12" => c12::run(&args),
        p => vpc::machinery_failure(&format!("property {p} is not served by this binary")),
    }
}
