//! C12 - views and models agree; a failed operation leaves its operand untouched.
//!
//! (a) agreement: every model the encoder accepts with <= 3 (thorough: 4) hops per segment, 1-3
//!     segments, distinct field values, every (CurrINF, CurrHF) in range, and one-hop paths with
//!     the second hop set / unset. The same logical path is held three ways: the crate's model, the
//!     crate's view over bytes, and the reference codec `vpc::refwire` (written from the spec).
//!     Oracle: bytes(view after op) == encode(model after the same op) == reference answer, Ok/Err
//!     agree; reverse o reverse = identity; logical position preserved; ScionPath::try_reverse ==
//!     a freshly built ScionPath over the reference-reversed bytes.
//! (b) atomicity / totality: every byte string the view constructor accepts for seg lens in
//!     {0..3}^3, all 4x64 pointer values, info flags from {0,1,2,3,0xFF}: an operation that returns
//!     Err leaves the bytes unchanged; nothing panics. Panics are classified (`panic@`,
//!     `overflow-panic@`, `debug-assert@`) - see util::panic_class.
use rayon::prelude::*;
use sciparse::{
    core::{convert::ToModel, encode::WireEncode, view::View},
    dataplane_path::{
        model::DpPath,
        onehop::{model::OneHopPath, view::OneHopPathView},
        standard::{
            model::{HopField, InfoField, Segment, StandardPath},
            types::{HopFieldFlags, HopFieldMac, InfoFieldFlags},
            view::StandardPathView,
        },
        types::PathType,
        view::{ScionDpPathView, ScionDpPathViewExt, ScionDpPathViewExtMut},
    },
    identifier::isd_asn::IsdAsn,
    path::{
        ScionPath,
        metadata::{PathMetadata, epic::EpicAuths, path_interface::PathInterface},
    },
};
use vpc::{
    Value, fnv64, hex, json, refmac,
    refwire::{RHop, RInfo, RStdPath},
    unhex,
};

use crate::util::{self, Acc};

// ------------------------------------------------------------------------------------------
// reference side
// ------------------------------------------------------------------------------------------

/// floor((ExpTime+1) * 337.5 s): relative expiry of a hop field
fn ref_rel_exp(exp: u8) -> u64 {
    (exp as u64 + 1) * 3375 / 10
}
fn sat_u32(x: u64) -> u32 {
    x.min(u32::MAX as u64) as u32
}
fn ref_expiration_std(r: &RStdPath) -> u32 {
    let n = r.num_inf();
    if n == 0 {
        return 0;
    }
    (0..n).map(|k| sat_u32(r.infos[k].timestamp as u64 + ref_rel_exp(r.hops[r.seg_range(k)].iter().map(|h| h.exp_time).min().unwrap()))).min().unwrap()
}
fn norm_ingress(i: &RInfo, h: &RHop) -> u16 {
    if i.cons_dir() { h.cons_ingress } else { h.cons_egress }
}
fn norm_egress(i: &RInfo, h: &RHop) -> u16 {
    if i.cons_dir() { h.cons_egress } else { h.cons_ingress }
}

fn m_info(i: &RInfo) -> InfoField {
    InfoField { flags: InfoFieldFlags::from_bits_retain(i.flags), segment_id: i.seg_id, timestamp: i.timestamp }
}
fn m_hop(h: &RHop) -> HopField {
    HopField { flags: HopFieldFlags::from_bits_retain(h.flags), expiration_units: h.exp_time, cons_ingress: h.cons_ingress, cons_egress: h.cons_egress, mac: HopFieldMac(h.mac) }
}
/// The crate model holding the same logical path as the reference value (built field by field,
/// not through the crate's own view->model conversion).
fn m_std(r: &RStdPath) -> StandardPath {
    let mut p = StandardPath::new_empty();
    p.current_info_field = r.curr_inf;
    p.current_hop_field = r.curr_hf;
    for k in 0..r.num_inf() {
        p.segments.push(Segment { info_field: m_info(&r.infos[k]), hop_fields: r.hops[r.seg_range(k)].iter().map(m_hop).collect() });
    }
    p
}
fn onehop_bytes(i: &RInfo, h1: &RHop, h2: &RHop) -> Vec<u8> {
    let mut v = i.to_bytes().to_vec();
    v.extend_from_slice(&h1.to_bytes());
    v.extend_from_slice(&h2.to_bytes());
    v
}
/// Reversal of a completed one-hop path per scionproto (`onehop.Path.Reverse`): convert to the
/// 2-hop standard path positioned at the second hop, then reverse that.
fn ref_onehop_reversed(i: &RInfo, h1: &RHop, h2: &RHop) -> Option<RStdPath> {
    if h2.cons_ingress == 0 {
        return None;
    }
    Some(RStdPath { curr_inf: 0, curr_hf: 1, rsv: 0, seg_len: [2, 0, 0], infos: vec![i.clone()], hops: vec![h1.clone(), h2.clone()] }.reversed())
}

fn std_view(b: &[u8]) -> Option<&StandardPathView> {
    match StandardPathView::try_from_slice(b) {
        Ok((v, rest)) if rest.is_empty() => Some(v),
        _ => None,
    }
}
fn std_view_mut(b: &mut [u8]) -> &mut StandardPathView {
    StandardPathView::try_from_mut_slice(b).expect("accepted before").0
}
fn boxed_std(b: &[u8]) -> Box<StandardPathView> {
    StandardPathView::try_from_boxed(b.to_vec().into_boxed_slice()).expect("accepted before")
}
fn onehop_view(b: &[u8]) -> OneHopPathView {
    OneHopPathView::try_from_slice(b).expect("32 bytes").0.clone()
}

const SRC: u64 = 0x0001_ff00_0000_0110;
const DST: u64 = 0x0002_ff00_0000_0220;

fn meta_for(n_if: usize, with_epic: bool) -> PathMetadata {
    let ifs: Vec<PathInterface> = (0..n_if).map(|i| PathInterface::new(IsdAsn::from_u64(SRC + 0x10 * (i as u64 / 2 + i as u64 % 2)), 100 + i as u16)).collect();
    let mut m = PathMetadata::new_minimal(1_800_000_000, 1400, ifs);
    m.notes = Some((0..n_if / 2 + 1).map(|i| format!("note-{i}")).collect());
    if with_epic {
        m.epic_auth = Some(EpicAuths::new(vec![1, 2, 3], vec![4, 5, 6]));
    }
    m
}
/// what reversal of the metadata means, written independently: sequence of interfaces and notes in
/// opposite order, EPIC authenticators dropped
fn meta_reversed(m: &PathMetadata) -> PathMetadata {
    let mut r = m.clone();
    r.interfaces = m.interfaces.as_ref().map(|v| v.iter().rev().cloned().collect());
    r.notes = m.notes.as_ref().map(|v| v.iter().rev().cloned().collect());
    r.epic_auth = None;
    r
}

// ------------------------------------------------------------------------------------------
// bookkeeping
// ------------------------------------------------------------------------------------------

struct Cx<'a> {
    acc: &'a mut Acc,
    /// identifies the input for "distinct" counting and witness ordering
    input: &'a [u8],
    variant: u64,
    part: &'static str,
    extra: Value,
}
impl Cx<'_> {
    /// count one evaluation; `nontrivial` by the rule stated in the evidence
    fn ev(&mut self, op: &'static str, nontrivial: bool) {
        self.acc.add("evaluations", 1);
        if nontrivial {
            let mut k = op.as_bytes().to_vec();
            k.push(0);
            k.extend_from_slice(&self.variant.to_be_bytes());
            k.extend_from_slice(self.input);
            self.acc.hashes.push(fnv64(&k));
        }
    }
    fn viol(&mut self, class: &str, op: &'static str, what: impl FnOnce() -> String, detail: impl FnOnce() -> Value) {
        let key = (self.input.len() as u64 * 256 + self.input.first().copied().unwrap_or(0) as u64, fnv64(self.input) ^ self.variant);
        let (part, input, variant, extra) = (self.part, self.input, self.variant, &self.extra);
        self.acc.viol(class, key, what, || json!({"part": part, "input": hex(input), "variant": variant, "op": op, "params": extra, "detail": detail()}));
    }
    fn panic(&mut self, op: &'static str, msg: &str) {
        let class = util::panic_class();
        self.acc.outcome(&format!("{}/{op}/{}", self.part, class.split('@').next().unwrap_or("panic")));
        let m = msg.to_string();
        self.viol(&class, op, || format!("{op} panicked: {m}"), || Value::Null);
    }
    fn out(&mut self, op: &str, res: &str) {
        self.acc.outcome(&format!("{}/{op}/{res}", self.part));
    }
}

// ------------------------------------------------------------------------------------------
// (a) standard paths
// ------------------------------------------------------------------------------------------

fn queries(v: &StandardPathView) -> [Option<u16>; 5] {
    let d = sciparse::dataplane_path::view::ScionDpPathViewRef::Standard(v);
    [d.first_egress_interface(), d.last_ingress_interface(), d.current_ingress_interface(), d.current_egress_interface(), v.curr_egress_interface()]
}
fn ref_queries(r: &RStdPath) -> [Option<u16>; 5] {
    let n = r.num_inf();
    let cur = if (r.curr_inf as usize) < n && (r.curr_hf as usize) < r.hops.len() { Some((&r.infos[r.curr_inf as usize], &r.hops[r.curr_hf as usize])) } else { None };
    [
        r.hops.first().map(|h| norm_egress(&r.infos[0], h)),
        r.hops.last().map(|h| norm_ingress(&r.infos[n - 1], h)),
        cur.map(|(i, h)| norm_ingress(i, h)),
        cur.map(|(i, h)| norm_egress(i, h)),
        cur.map(|(i, h)| norm_egress(i, h)),
    ]
}

fn check_a_std(r: &RStdPath, acc: &mut Acc) {
    let enc_ref = r.to_bytes();
    let m = m_std(r);
    let mut cx = Cx { acc, input: &enc_ref, variant: 0, part: "a-std", extra: Value::Null };
    let nt = true; // every model of (a) has >= 1 hop field and distinct field values

    // conversion model -> bytes
    match vpc::catch(|| m.try_encode_to_vec()) {
        Ok(Ok(b)) => {
            cx.ev("encode", nt);
            if b != enc_ref {
                cx.out("encode", "differs-from-reference");
                cx.viol("std-encode-differs-from-reference", "encode", || "try_encode_to_vec of the model differs from the reference encoding of the same logical path".into(), || json!({"crate": hex(&b)}));
                return;
            }
            cx.out("encode", "==reference");
        }
        Ok(Err(e)) => {
            cx.viol("std-encoder-rejects-model", "encode", || format!("encoder rejects a model with pointers in range: {e}"), || Value::Null);
            return;
        }
        Err(p) => {
            cx.panic("encode", &p);
            return;
        }
    }
    let Some(v) = std_view(&enc_ref) else {
        cx.viol("std-view-rejects-encoding", "view", || "view constructor rejects (or does not consume) the encoding of a model".into(), || Value::Null);
        return;
    };
    // conversion bytes -> model, at both API levels
    match vpc::catch(|| (v.to_model(), ScionDpPathView::Standard(v.to_boxed()).to_model(), DpPath::Standard(m.clone()).try_encode_to_owned_view().map(|o| o.as_slice().to_vec()))) {
        Ok((m2, dp2, back)) => {
            cx.ev("to_model", nt);
            cx.ev("dp-to_model", nt);
            cx.ev("dp-try_encode_to_owned_view", nt);
            if m2 != m {
                cx.viol("std-to-model-differs", "to_model", || "view.to_model() differs from the model the bytes were encoded from".into(), || json!({"got": format!("{m2:?}")}));
            }
            if dp2 != DpPath::Standard(m.clone()) {
                cx.viol("dp-to-model-differs", "dp-to_model", || "ScionDpPathView::to_model() differs from DpPath::Standard(model)".into(), || Value::Null);
            }
            if back.as_deref() != Ok(&enc_ref[..]) {
                cx.viol("dp-encode-owned-view-differs", "dp-try_encode_to_owned_view", || "DpPath::try_encode_to_owned_view differs from the reference bytes".into(), || Value::Null);
            }
            cx.out("conversions", "round-trip");
        }
        Err(p) => cx.panic("to_model", &p),
    }
    // counts and segments()
    match vpc::catch(|| {
        let segs: Vec<(InfoField, Vec<HopField>)> = v.segments().map(|(i, hs)| (i.to_model(), hs.iter().map(|h| h.to_model()).collect())).collect();
        (v.info_field_count() as usize, v.hop_field_count() as usize, [v.seg0_len(), v.seg1_len(), v.seg2_len()], segs, m.info_field_count(), m.hop_field_count(), m.segment_sizes())
    }) {
        Ok((vi, vh, vl, segs, mi, mh, ml)) => {
            cx.ev("counts", nt);
            cx.ev("segments", nt);
            let ok_counts = vi == mi && vi == r.num_inf() && vh == mh && vh == r.hops.len() && vl == ml && vl == r.seg_len;
            if !ok_counts {
                cx.viol("std-counts-disagree", "counts", || format!("info/hop/segment counts: view ({vi},{vh},{vl:?}) model ({mi},{mh},{ml:?}) reference ({},{},{:?})", r.num_inf(), r.hops.len(), r.seg_len), || Value::Null);
            }
            let ref_segs: Vec<(InfoField, Vec<HopField>)> = (0..r.num_inf()).map(|k| (m_info(&r.infos[k]), r.hops[r.seg_range(k)].iter().map(m_hop).collect())).collect();
            let model_segs: Vec<(InfoField, Vec<HopField>)> = m.segments.iter().map(|s| (s.info_field, s.hop_fields.to_vec())).collect();
            if segs != ref_segs || segs != model_segs {
                cx.viol("std-segments-disagree", "segments", || "view.segments() differs from the model's segments / the reference segmentation".into(), || Value::Null);
            }
            cx.out("counts+segments", if ok_counts { "agree" } else { "disagree" });
        }
        Err(p) => cx.panic("counts", &p),
    }
    // expiration
    match vpc::catch(|| (v.expiration(), m.expiration(), ScionDpPathView::Standard(v.to_boxed()).expiration())) {
        Ok((ve, me, de)) => {
            cx.ev("expiration", nt);
            let re = ref_expiration_std(r);
            if ve != me || ve != re || de != Some(ve) {
                cx.viol("std-expiration-disagrees", "expiration", || format!("expiration: view {ve} model {me} dp-view {de:?} reference {re}"), || Value::Null);
            }
            cx.out("expiration", if re == u32::MAX { "agree(saturated)" } else { "agree" });
        }
        Err(p) => cx.panic("expiration", &p),
    }
    // interface queries
    let q0 = match vpc::catch(|| queries(v)) {
        Ok(q) => {
            cx.ev("interfaces", nt);
            let rq = ref_queries(r);
            if q != rq {
                cx.viol("std-interface-query-differs-from-reference", "interfaces", || format!("[first_egress,last_ingress,current_ingress,current_egress,curr_egress_interface] view {q:?} reference {rq:?}"), || Value::Null);
            }
            cx.out("interfaces", "==reference");
            Some(q)
        }
        Err(p) => {
            cx.panic("interfaces", &p);
            None
        }
    };
    // reversal x1, x2 on view, model, dp-view, dp-model
    let rrev = r.reversed();
    let rev_ref = rrev.to_bytes();
    {
        // sanity of the reference itself: position preserved
        let (a, b) = (&rrev.hops[rrev.curr_hf as usize], &r.hops[r.curr_hf as usize]);
        let (ia, ib) = (&rrev.infos[rrev.curr_inf as usize], &r.infos[r.curr_inf as usize]);
        if a != b || ia.flags != ib.flags ^ 1 || ia.seg_id != ib.seg_id || ia.timestamp != ib.timestamp || rrev.reversed() != *r {
            vpc::machinery_failure("refwire::reversed() does not preserve the logical position / is not an involution");
        }
    }
    let res = vpc::catch(|| {
        let mut b1 = enc_ref.clone();
        let r1 = std_view_mut(&mut b1).try_reverse().is_ok();
        let mut b2 = b1.clone();
        let r2 = std_view_mut(&mut b2).try_reverse().is_ok();
        let mut m1 = m.clone();
        let mr1 = m1.try_reverse().is_ok();
        let m1e = m1.try_encode_to_vec().ok();
        let mut m2 = m1.clone();
        let mr2 = m2.try_reverse().is_ok();
        let mut dv = ScionDpPathView::Standard(boxed_std(&enc_ref));
        let dr = dv.try_reverse().is_ok();
        let mut dm = DpPath::Standard(m.clone());
        let dmr = dm.try_reverse().is_ok();
        let dme = dm.try_encode_to_owned_view().ok().map(|x| x.as_slice().to_vec());
        (r1, b1, r2, b2, mr1, m1e, mr2, m2, dr, dv.as_slice().to_vec(), dmr, dme)
    });
    match res {
        Ok((r1, b1, r2, b2, mr1, m1e, mr2, m2, dr, dvb, dmr, dme)) => {
            cx.ev("try_reverse", nt);
            cx.ev("try_reverse-x2", nt);
            cx.ev("model-try_reverse", nt);
            cx.ev("dp-try_reverse", nt);
            if !(r1 && mr1 && dr && dmr) {
                cx.viol("std-reverse-refused", "try_reverse", || format!("reversal of an in-range path refused: view {r1} model {mr1} dp-view {dr} dp-model {dmr}"), || Value::Null);
            }
            if b1 != rev_ref {
                cx.out("try_reverse", "view!=reference");
                cx.viol("std-view-reverse-differs-from-reference", "try_reverse", || "bytes after StandardPathView::try_reverse differ from the reference reversal".into(), || json!({"view": hex(&b1), "reference": hex(&rev_ref)}));
            } else {
                cx.out("try_reverse", "view==reference");
            }
            if m1e.as_deref() != Some(&rev_ref[..]) {
                cx.out("try_reverse", "model!=reference");
                cx.viol("std-model-reverse-differs-from-reference", "model-try_reverse", || "encode(StandardPath::try_reverse) differs from the reference reversal".into(), || json!({"model": m1e.as_ref().map(|x| hex(x)), "reference": hex(&rev_ref)}));
            } else {
                cx.out("try_reverse", "model==reference");
            }
            if m1e.as_deref() != Some(&b1[..]) {
                cx.viol("std-view-and-model-reverse-disagree", "try_reverse", || "bytes(view after try_reverse) != encode(model after try_reverse)".into(), || json!({"view": hex(&b1), "model": m1e.as_ref().map(|x| hex(x))}));
            }
            if dvb != rev_ref || dme.as_deref() != Some(&rev_ref[..]) {
                cx.viol("dp-reverse-differs-from-reference", "dp-try_reverse", || "ScionDpPathView / DpPath reversal differs from the reference reversal".into(), || Value::Null);
            }
            if !(r2 && mr2) || b2 != enc_ref || m2 != m {
                cx.out("try_reverse-x2", "not-identity");
                cx.viol("std-reverse-twice-not-identity", "try_reverse-x2", || "reverse o reverse is not the identity".into(), || json!({"after_two": hex(&b2)}));
            } else {
                cx.out("try_reverse-x2", "identity");
            }
            // logical position on the crate's own result, and the interface laws across reversal
            if let (Ok(pa), Some(q0)) = (RStdPath::parse(&b1), q0) {
                let same_pos = (pa.curr_hf as usize) < pa.hops.len() && (pa.curr_inf as usize) < pa.infos.len() && pa.hops[pa.curr_hf as usize] == r.hops[r.curr_hf as usize] && {
                    let (x, y) = (&pa.infos[pa.curr_inf as usize], &r.infos[r.curr_inf as usize]);
                    x.flags == y.flags ^ 1 && x.seg_id == y.seg_id && x.timestamp == y.timestamp
                };
                if !same_pos {
                    cx.viol("std-view-reverse-moves-logical-position", "try_reverse", || "after try_reverse the pointers do not designate the same hop field / info field".into(), || json!({"after": hex(&b1)}));
                }
                if let Some(va) = std_view(&b1) {
                    if let Ok(q1) = vpc::catch(|| queries(va)) {
                        cx.ev("interfaces-after-reverse", nt);
                        if !(q1[0] == q0[1] && q1[1] == q0[0] && q1[2] == q0[3] && q1[3] == q0[2]) {
                            cx.viol("std-interfaces-not-mirrored-by-reverse", "interfaces-after-reverse", || format!("first/last/current ingress/egress before {q0:?} after {q1:?}"), || Value::Null);
                        }
                    }
                }
                cx.out("try_reverse", if same_pos { "position-preserved" } else { "position-moved" });
            }
        }
        Err(p) => cx.panic("try_reverse", &p),
    }
    // ScionPath
    let n_if = 2 * (r.hops.len() - r.num_inf());
    for (variant, (src, dst, meta)) in [(SRC, DST, None), (SRC, DST, Some(meta_for(n_if.max(2), true))), (SRC, SRC, None)].into_iter().enumerate() {
        cx.variant = 1 + variant as u64;
        let (src, dst) = (IsdAsn::from_u64(src), IsdAsn::from_u64(dst));
        let nh: std::net::SocketAddr = "10.0.0.1:30042".parse().unwrap();
        let res = vpc::catch(|| {
            let mut sp = ScionPath::new(src, dst, ScionDpPathView::Standard(boxed_std(&enc_ref)), meta.clone(), Some(nh));
            let r1 = sp.try_reverse().is_ok();
            let fresh = ScionPath::new(dst, src, ScionDpPathView::Standard(boxed_std(&rev_ref)), meta.as_ref().map(meta_reversed), None);
            let mut sp2 = sp.clone();
            let r2 = sp2.try_reverse().is_ok();
            let fresh2 = ScionPath::new(src, dst, ScionDpPathView::Standard(boxed_std(&enc_ref)), meta.as_ref().map(|m| meta_reversed(&meta_reversed(m))), None);
            (r1, sp, fresh, r2, sp2, fresh2)
        });
        match res {
            Ok((r1, sp, fresh, r2, sp2, fresh2)) => {
                cx.ev("scionpath-try_reverse", nt);
                cx.ev("scionpath-try_reverse-x2", nt);
                if !r1 || !r2 {
                    cx.viol("scionpath-reverse-refused", "scionpath-try_reverse", || "ScionPath::try_reverse refused an in-range path".into(), || Value::Null);
                }
                for (a, b, op) in [(&sp, &fresh, "scionpath-try_reverse"), (&sp2, &fresh2, "scionpath-try_reverse-x2")] {
                    if a == b {
                        cx.out(op, "==freshly-built");
                        continue;
                    }
                    cx.out(op, "!=freshly-built");
                    let field = if a.src_ia() != b.src_ia() || a.dst_ia() != b.dst_ia() {
                        "endpoints"
                    } else if a.dp_path().as_slice() != b.dp_path().as_slice() {
                        "dp-path"
                    } else if a.metadata() != b.metadata() {
                        "metadata"
                    } else if a.fingerprint() != b.fingerprint() {
                        "dp-fingerprint"
                    } else if a.cp_fingerprint() != b.cp_fingerprint() {
                        "cp-fingerprint"
                    } else if a.next_hop() != b.next_hop() {
                        "next-hop"
                    } else {
                        "expiration"
                    };
                    cx.viol(&format!("scionpath-reverse-{field}-differs-from-fresh"), op, || format!("after ScionPath::try_reverse the {field} differ(s) from a ScionPath freshly built over the reference-reversed bytes"), || json!({"got": format!("{a}"), "fresh": format!("{b}")}));
                }
            }
            Err(p) => cx.panic("scionpath-try_reverse", &p),
        }
    }
}

// ------------------------------------------------------------------------------------------
// (a) one-hop paths
// ------------------------------------------------------------------------------------------

fn check_a_onehop(i: &RInfo, h1: &RHop, h2: &RHop, acc: &mut Acc) {
    let enc_ref = onehop_bytes(i, h1, h2);
    let m = OneHopPath::new_from_parts(m_info(i), [m_hop(h1), m_hop(h2)]);
    let mut cx = Cx { acc, input: &enc_ref, variant: 0, part: "a-onehop", extra: Value::Null };
    let nt = true;
    match vpc::catch(|| m.try_encode_to_vec()) {
        Ok(Ok(b)) if b == enc_ref => {
            cx.ev("encode", nt);
            cx.out("encode", "==reference");
        }
        Ok(_) => {
            cx.viol("onehop-encode-differs-from-reference", "encode", || "encoding of the one-hop model differs from the reference bytes".into(), || Value::Null);
            return;
        }
        Err(p) => {
            cx.panic("encode", &p);
            return;
        }
    }
    let v = onehop_view(&enc_ref);
    match vpc::catch(|| (v.to_model(), ScionDpPathView::OneHop(v.clone()).to_model(), DpPath::OneHop(m.clone()).try_encode_to_owned_view().map(|o| o.as_slice().to_vec()))) {
        Ok((m2, dp2, back)) => {
            cx.ev("to_model", nt);
            cx.ev("dp-to_model", nt);
            cx.ev("dp-try_encode_to_owned_view", nt);
            if m2 != m || dp2 != DpPath::OneHop(m.clone()) || back.as_deref() != Ok(&enc_ref[..]) {
                cx.viol("onehop-conversion-round-trip-differs", "to_model", || "view<->model conversion of a one-hop path does not round-trip".into(), || Value::Null);
            }
            cx.out("conversions", "round-trip");
        }
        Err(p) => cx.panic("to_model", &p),
    }
    // expiration: only the view offers it; reference = saturating, as for the equivalent standard path
    let re = sat_u32(i.timestamp as u64 + ref_rel_exp(h1.exp_time.min(h2.exp_time)));
    match vpc::catch(|| v.expiration()) {
        Ok(e) => {
            cx.ev("expiration", nt);
            if e != re {
                cx.viol("onehop-expiration-differs-from-reference", "expiration", || format!("OneHopPathView::expiration() = {e}, reference (saturating, = StandardPathView on the equivalent 2-hop path) = {re}"), || Value::Null);
            }
            cx.out("expiration", "==reference");
        }
        Err(p) => {
            cx.ev("expiration", nt);
            cx.panic("expiration", &p)
        }
    }
    // interface queries
    match vpc::catch(|| {
        let d = ScionDpPathView::OneHop(v.clone());
        [d.first_egress_interface(), d.last_ingress_interface(), d.current_ingress_interface(), d.current_egress_interface()]
    }) {
        Ok(q) => {
            cx.ev("interfaces", nt);
            let rq = [Some(norm_egress(i, h1)), Some(norm_ingress(i, h2)), Some(norm_ingress(i, h2)), Some(norm_egress(i, h1))];
            if q != rq {
                cx.viol("onehop-interface-query-differs-from-reference", "interfaces", || format!("view {q:?} reference {rq:?}"), || Value::Null);
            }
            cx.out("interfaces", "==reference");
        }
        Err(p) => cx.panic("interfaces", &p),
    }
    // reversal
    let res = vpc::catch(|| {
        let mut v1 = v.clone();
        let r1 = v1.try_reverse().is_ok();
        let mut v2 = v1.clone();
        let r2 = v2.try_reverse().is_ok();
        let mut m1 = m.clone();
        let mr1 = m1.try_reverse().is_ok();
        let mut dv = ScionDpPathView::OneHop(v.clone());
        let dr = dv.try_reverse().is_ok();
        let mut dm = DpPath::OneHop(m.clone());
        let dmr = dm.try_reverse().is_ok();
        let mut dm2 = dm.clone();
        let dmr2 = dm2.try_reverse().is_ok();
        (r1, v1, r2, v2, mr1, m1, dr, dv, dmr, dm, dmr2, dm2)
    });
    match res {
        Ok((r1, v1, r2, v2, mr1, m1, dr, dv, dmr, dm, dmr2, dm2)) => {
            cx.ev("try_reverse", nt);
            cx.ev("model-try_reverse", nt);
            cx.ev("dp-try_reverse", nt);
            let rref = ref_onehop_reversed(i, h1, h2);
            if !(r1 == mr1 && r1 == dr && r1 == dmr && r1 == rref.is_some()) {
                cx.viol("onehop-reverse-ok-err-disagree", "try_reverse", || format!("Ok/Err of reversal: view {r1} model {mr1} dp-view {dr} dp-model {dmr} reference {}", rref.is_some()), || Value::Null);
            }
            if r1 != (v1.as_slice() != &enc_ref[..]) && !r1 {
                cx.viol("onehop-view-reverse-err-mutates", "try_reverse", || "OneHopPathView::try_reverse returned Err and changed the bytes".into(), || json!({"after": hex(v1.as_slice())}));
            }
            cx.out("try_reverse", if r1 { "Ok" } else { "Err(second hop unset)" });
            if r1 {
                if m1.try_encode_to_vec().ok().as_deref() != Some(v1.as_slice()) {
                    cx.viol("onehop-view-and-model-reverse-disagree", "try_reverse", || "bytes(OneHopPathView after try_reverse) != encode(OneHopPath after try_reverse)".into(), || Value::Null);
                }
                // DpPath (model) vs ScionDpPathView (view)
                let dv_model = dv.to_model();
                if dv_model != dm {
                    cx.out("dp-try_reverse", "view-keeps-onehop,model-becomes-standard");
                    cx.viol(
                        "onehop-reverse-view-stays-onehop-model-becomes-standard",
                        "dp-try_reverse",
                        || "ScionDpPathView::try_reverse keeps a (swapped) one-hop path, DpPath::try_reverse turns the same path into a 2-hop standard path: path type, length and bytes differ".into(),
                        || json!({"view_after": hex(dv.as_slice()), "view_path_type": format!("{:?}", dv_model.path_type()), "model_after": dm.try_encode_to_vec().ok().map(|x| hex(&x)), "model_path_type": format!("{:?}", dm.path_type())}),
                    );
                } else {
                    cx.out("dp-try_reverse", "view==model");
                }
                if let Some(rr) = &rref {
                    let want = rr.to_bytes();
                    let got = dm.try_encode_to_vec().ok();
                    if dm.path_type() != PathType::Scion || got.as_deref() != Some(&want[..]) {
                        cx.viol("onehop-model-reverse-differs-from-reference", "dp-try_reverse", || "DpPath::try_reverse of a one-hop path differs from the reference (scionproto: convert to standard path at hop 2, reverse)".into(), || json!({"got": got.map(|x| hex(&x)), "reference": hex(&want)}));
                    } else {
                        cx.out("dp-try_reverse", "model==reference(standard)");
                    }
                }
                // involution
                cx.ev("try_reverse-x2", nt);
                if !r2 {
                    cx.out("try_reverse-x2", "refused");
                    cx.viol("onehop-view-reverse-twice-refused", "try_reverse-x2", || "a reversed one-hop path cannot be reversed back: the second try_reverse fails because hop 1 of a well-formed one-hop path has ConsIngress 0".into(), || json!({"after_one": hex(v1.as_slice())}));
                } else if v2.as_slice() != &enc_ref[..] {
                    cx.out("try_reverse-x2", "not-identity");
                    cx.viol("onehop-view-reverse-twice-not-identity", "try_reverse-x2", || "reverse o reverse on OneHopPathView is not the identity".into(), || Value::Null);
                } else {
                    cx.out("try_reverse-x2", "identity");
                }
                cx.ev("dp-try_reverse-x2", nt);
                if !dmr2 || dm2 != DpPath::OneHop(m.clone()) {
                    cx.out("dp-try_reverse-x2", "model-does-not-return-to-onehop");
                    cx.viol("onehop-dppath-reverse-twice-not-identity", "dp-try_reverse-x2", || "DpPath::try_reverse applied twice to a one-hop path yields a standard path, not the original one-hop path".into(), || json!({"after_two": dm2.try_encode_to_vec().ok().map(|x| hex(&x)), "path_type": format!("{:?}", dm2.path_type())}));
                } else {
                    cx.out("dp-try_reverse-x2", "identity");
                }
            }
        }
        Err(p) => cx.panic("try_reverse", &p),
    }
    // set_second_hop
    let key = [0x5Au8; 16];
    for (vi, (ingress, advanced)) in [(7u16, false), (7, true), (0xBEEF, false)].into_iter().enumerate() {
        cx.variant = 10 + vi as u64;
        cx.extra = json!({"ingress_interface": ingress, "key": hex(&key), "segment_id_was_advanced": advanced});
        let res = vpc::catch(|| {
            let mut v1 = v.clone();
            v1.set_second_hop(ingress, key, advanced);
            let mut m1 = m.clone();
            m1.set_second_hop(ingress, key, advanced);
            (v1.as_slice().to_vec(), m1.try_encode_to_vec().ok())
        });
        match res {
            Ok((vb, mb)) => {
                cx.ev("set_second_hop", nt);
                // reference (scionproto router, one-hop ingress): SecondHop = {ConsIngress: in, ExpTime: FirstHop.ExpTime}, MAC over it with the advanced SegID
                let beta = if advanced { i.seg_id } else { refmac::beta_step(i.seg_id, &h1.mac) };
                let mut want = RHop { flags: 0, exp_time: h1.exp_time, cons_ingress: ingress, cons_egress: 0, mac: [0; 6] };
                want.mac = refmac::hop_mac(&key, beta, i.timestamp, want.exp_time, ingress, 0);
                let want_b = onehop_bytes(i, h1, &want);
                let mb = mb.unwrap_or_default();
                if vb == mb {
                    cx.out("set_second_hop", "view==model");
                } else {
                    let (hv, hm) = (RHop::from_bytes(&vb[20..32]), RHop::from_bytes(&mb[20..32]));
                    let mut diffs = vec![];
                    if hv.exp_time != hm.exp_time {
                        diffs.push("exptime");
                    }
                    if hv.flags != hm.flags {
                        diffs.push("flags");
                    }
                    if hv.cons_ingress != hm.cons_ingress || hv.cons_egress != hm.cons_egress {
                        diffs.push("interfaces");
                    }
                    if vb[..20] != mb[..20] {
                        diffs.push("info-or-hop1");
                    }
                    if diffs.is_empty() {
                        diffs.push("mac");
                    }
                    let d = diffs.join("+");
                    cx.out("set_second_hop", &format!("view!=model({d})"));
                    cx.viol(&format!("onehop-set-second-hop-view-and-model-disagree-on-{d}"), "set_second_hop", || format!("bytes(view after set_second_hop) != encode(model after set_second_hop): second hop differs in {d} (view copies hop 1's ExpTime and keeps hop 2's flags; model writes ExpTime 0 and clears the flags)"), || json!({"view": hex(&vb), "model": hex(&mb), "reference": hex(&want_b)}));
                }
                cx.out("set_second_hop", if vb == want_b { "view==reference" } else { "view!=reference" });
                cx.out("set_second_hop", if mb == want_b { "model==reference" } else { "model!=reference" });
            }
            Err(p) => cx.panic("set_second_hop", &p),
        }
    }
    cx.extra = Value::Null;
    // ScionPath over a one-hop dp path (fingerprints recomputed == fresh over the view's own result)
    cx.variant = 20;
    let (src, dst) = (IsdAsn::from_u64(SRC), IsdAsn::from_u64(DST));
    let res = vpc::catch(|| {
        let mut sp = ScionPath::new(src, dst, ScionDpPathView::OneHop(v.clone()), Some(meta_for(2, false)), None);
        let before = sp.clone();
        let r1 = sp.try_reverse().is_ok();
        let fresh = r1.then(|| ScionPath::new(dst, src, sp.dp_path().clone(), Some(meta_reversed(&meta_for(2, false))), None));
        (r1, before, sp, fresh)
    });
    match res {
        Ok((r1, before, sp, fresh)) => {
            cx.ev("scionpath-try_reverse", nt);
            if !r1 && sp != before {
                cx.viol("scionpath-onehop-reverse-err-mutates", "scionpath-try_reverse", || "ScionPath::try_reverse returned Err and changed the path".into(), || Value::Null);
            }
            if let Some(f) = fresh {
                if f != sp {
                    cx.viol("scionpath-onehop-reverse-differs-from-fresh", "scionpath-try_reverse", || "ScionPath over a one-hop path: state after try_reverse differs from a freshly built path".into(), || json!({"got": format!("{sp}"), "fresh": format!("{f}")}));
                }
            }
            cx.out("scionpath-try_reverse", if r1 { "Ok==freshly-built" } else { "Err,unchanged" });
        }
        Err(p) => cx.panic("scionpath-new/try_reverse", &p),
    }
}

// ------------------------------------------------------------------------------------------
// (b) atomicity + totality on raw byte strings
// ------------------------------------------------------------------------------------------

fn diff_class(before: &[u8], after: &[u8]) -> &'static str {
    if before.len() == after.len() && before[0] == after[0] && before[4..] == after[4..] && before[1..4] != after[1..4] {
        "leaves-seglens-swapped"
    } else {
        "mutates-path"
    }
}

fn check_b_std(bytes: &[u8], acc: &mut Acc) {
    let mut cx = Cx { acc, input: bytes, variant: 0, part: "b-std", extra: Value::Null };
    let hops = ((bytes[1] & 3) << 4 | bytes[2] >> 4) as usize & 63;
    let hops = hops + ((bytes[2] & 0xf) << 2 | bytes[3] >> 6) as usize + (bytes[3] & 63) as usize;
    let has = hops > 0;
    // 1 view
    let mut b = bytes.to_vec();
    match vpc::catch(|| std_view_mut(&mut b).try_reverse().map_err(|e| e.reason.to_string())) {
        Ok(Ok(())) => {
            cx.ev("try_reverse", has && b != bytes);
            cx.out("try_reverse", "Ok");
        }
        Ok(Err(reason)) => {
            cx.ev("try_reverse", true);
            cx.out("try_reverse", &format!("Err({reason})"));
            if b != bytes {
                let d = diff_class(bytes, &b);
                cx.out("try_reverse", &format!("Err-but-{d}"));
                cx.viol(&format!("std-view-try-reverse-err-{d}"), "try_reverse", || format!("StandardPathView::try_reverse returned Err({reason}) but the path bytes changed (segment lengths are swapped before the pointers are validated)"), || json!({"after": hex(&b)}));
            }
        }
        Err(p) => {
            cx.ev("try_reverse", true);
            cx.panic("try_reverse", &p)
        }
    }
    // 2 dp view
    let mut dv = ScionDpPathView::Standard(boxed_std(bytes));
    match vpc::catch(|| dv.try_reverse().map(|_| ()).map_err(|e| e.reason.to_string())) {
        Ok(Ok(())) => {
            cx.ev("dp-try_reverse", has && dv.as_slice() != bytes);
            cx.out("dp-try_reverse", "Ok");
        }
        Ok(Err(reason)) => {
            cx.ev("dp-try_reverse", true);
            cx.out("dp-try_reverse", "Err");
            if dv.as_slice() != bytes {
                let d = diff_class(bytes, dv.as_slice());
                cx.viol(&format!("dpview-try-reverse-err-{d}"), "dp-try_reverse", || format!("ScionDpPathViewExtMut::try_reverse returned Err({reason}) but the path bytes changed"), || json!({"after": hex(dv.as_slice())}));
            }
        }
        Err(p) => cx.panic("dp-try_reverse", &p),
    }
    // 3 ScionPath
    let (src, dst) = (IsdAsn::from_u64(SRC), IsdAsn::from_u64(DST));
    match vpc::catch(|| {
        let mut sp = ScionPath::new(src, dst, ScionDpPathView::Standard(boxed_std(bytes)), Some(meta_for(4, true)), None);
        let before = sp.clone();
        let r = sp.try_reverse().map_err(|e| e.reason.to_string());
        (r, before, sp)
    }) {
        Ok((Ok(()), _, sp)) => {
            cx.ev("scionpath-try_reverse", has && sp.dp_path().as_slice() != bytes);
            cx.out("scionpath-try_reverse", "Ok");
        }
        Ok((Err(reason), before, sp)) => {
            cx.ev("scionpath-try_reverse", true);
            cx.out("scionpath-try_reverse", "Err");
            if sp != before {
                let d = diff_class(bytes, sp.dp_path().as_slice());
                cx.viol(&format!("scionpath-try-reverse-err-{d}"), "scionpath-try_reverse", || format!("ScionPath::try_reverse returned Err({reason}) but the path changed (inherited from StandardPathView::try_reverse)"), || json!({"dp_path_after": hex(sp.dp_path().as_slice()), "endpoints_swapped": sp.src_ia() != before.src_ia()}));
            }
        }
        Err(p) => cx.panic("scionpath-new/try_reverse", &p),
    }
    // 4 model
    let v = std_view(bytes).expect("accepted before");
    match vpc::catch(|| {
        let m = v.to_model();
        let mut m1 = m.clone();
        let r = m1.try_reverse().is_ok();
        let unchanged = m1 == m;
        let enc = m.try_encode_to_vec().is_ok();
        let e = m.expiration();
        (r, unchanged, enc, e)
    }) {
        Ok((r, unchanged, enc, _e)) => {
            cx.ev("to_model", has);
            cx.ev("model-try_reverse", true);
            cx.ev("model-encode", true);
            cx.ev("model-expiration", has);
            if !r && !unchanged {
                cx.viol("std-model-try-reverse-err-mutates", "model-try_reverse", || "StandardPath::try_reverse returned Err but changed the model".into(), || Value::Null);
            }
            cx.out("model-try_reverse", if r { "Ok" } else { "Err" });
            cx.out("model-encode(to_model(bytes))", if enc { "Ok" } else { "Err" });
        }
        Err(p) => cx.panic("to_model/model-ops", &p),
    }
    // 5 queries
    match vpc::catch(|| {
        let n: usize = v.segments().map(|(_, h)| h.len()).sum();
        (v.expiration(), queries(v), v.info_field_count(), v.hop_field_count(), n, ScionDpPathView::Standard(v.to_boxed()).expiration())
    }) {
        Ok((e, q, ..)) => {
            cx.ev("expiration", e != 0);
            cx.ev("interfaces", q.iter().any(|x| x.is_some()));
            cx.ev("counts+segments", has);
            cx.out("queries", if q[2].is_some() { "current-hop-resolved" } else { "current-hop-none" });
        }
        Err(p) => cx.panic("queries", &p),
    }
}

fn check_b_onehop(bytes: &[u8], acc: &mut Acc) {
    let mut cx = Cx { acc, input: bytes, variant: 0, part: "b-onehop", extra: Value::Null };
    let v = onehop_view(bytes);
    match vpc::catch(|| {
        let mut v1 = v.clone();
        let r = v1.try_reverse().is_ok();
        (r, v1)
    }) {
        Ok((r, v1)) => {
            cx.ev("try_reverse", true);
            if !r && v1.as_slice() != bytes {
                cx.viol("onehop-view-try-reverse-err-mutates", "try_reverse", || "OneHopPathView::try_reverse returned Err but changed the bytes".into(), || json!({"after": hex(v1.as_slice())}));
            }
            cx.out("try_reverse", if r { "Ok" } else { "Err" });
        }
        Err(p) => cx.panic("try_reverse", &p),
    }
    match vpc::catch(|| {
        let m = v.to_model();
        let mut m1 = m.clone();
        let r1 = m1.try_reverse().is_ok();
        let mut d = DpPath::OneHop(m.clone());
        let r2 = d.try_reverse().is_ok();
        let mut dv = ScionDpPathView::OneHop(v.clone());
        let r3 = dv.try_reverse().is_ok();
        (r1, r1 || m1 == m, r2, r2 || d == DpPath::OneHop(m.clone()), r3, r3 || dv.as_slice() == bytes)
    }) {
        Ok((r1, a1, r2, a2, r3, a3)) => {
            cx.ev("model-try_reverse", true);
            cx.ev("dp-model-try_reverse", true);
            cx.ev("dp-try_reverse", true);
            if !(a1 && a2 && a3) {
                cx.viol("onehop-reverse-err-mutates", "model-try_reverse", || format!("a one-hop reversal returned Err and changed its operand: model {a1} dp-model {a2} dp-view {a3}"), || Value::Null);
            }
            cx.out("model/dp try_reverse", if r1 && r2 && r3 { "Ok" } else if !r1 && !r2 && !r3 { "Err" } else { "mixed" });
        }
        Err(p) => cx.panic("model-try_reverse", &p),
    }
    match vpc::catch(|| v.expiration()) {
        Ok(_) => {
            cx.ev("expiration", true);
            cx.out("expiration", "returns");
        }
        Err(p) => {
            cx.ev("expiration", true);
            cx.panic("expiration", &p)
        }
    }
    match vpc::catch(|| {
        let mut v1 = v.clone();
        v1.set_second_hop(9, [7u8; 16], false);
        let mut m = v.to_model();
        m.set_second_hop(9, [7u8; 16], false);
        let d = ScionDpPathView::OneHop(v.clone());
        (d.first_egress_interface(), d.last_ingress_interface(), d.current_ingress_interface(), d.current_egress_interface())
    }) {
        Ok(_) => {
            cx.ev("set_second_hop", true);
            cx.ev("interfaces", true);
        }
        Err(p) => cx.panic("set_second_hop/interfaces", &p),
    }
    let (src, dst) = (IsdAsn::from_u64(SRC), IsdAsn::from_u64(DST));
    match vpc::catch(|| {
        let mut sp = ScionPath::new(src, dst, ScionDpPathView::OneHop(v.clone()), None, None);
        let before = sp.clone();
        let r = sp.try_reverse().is_ok();
        (r, r || sp == before)
    }) {
        Ok((r, atomic)) => {
            cx.ev("scionpath-try_reverse", true);
            if !atomic {
                cx.viol("scionpath-onehop-reverse-err-mutates", "scionpath-try_reverse", || "ScionPath::try_reverse over a one-hop path returned Err and changed the path".into(), || Value::Null);
            }
            cx.out("scionpath-try_reverse", if r { "Ok" } else { "Err" });
        }
        Err(p) => {
            cx.ev("scionpath-new", true);
            cx.panic("scionpath-new/try_reverse", &p)
        }
    }
}

// ------------------------------------------------------------------------------------------
// enumeration
// ------------------------------------------------------------------------------------------

/// Well-formed reference path with distinct field values. `scheme` varies where the smallest
/// ExpTime sits and whether timestamp + expiry saturates.
fn a_std_case(lens: &[u8], cons_mask: u8, extra_flags: u8, scheme: u8, ci: u8, ch: u8) -> RStdPath {
    let mut seg_len = [0u8; 3];
    let total: usize = lens.iter().map(|x| *x as usize).sum();
    let mut infos = vec![];
    let mut hops = vec![];
    let mut j = 0usize;
    for (k, l) in lens.iter().enumerate() {
        seg_len[k] = *l;
        let ts = match scheme {
            0 => 1_700_000_000 + 1000 * k as u32,
            1 => 1_700_000_000 - 1000 * k as u32,
            2 => u32::MAX - 50 - k as u32,
            _ => k as u32,
        };
        infos.push(RInfo { flags: (cons_mask >> k & 1) | (extra_flags & 0xFE), rsv: 0, seg_id: 0x1111 * (k as u16 + 1) + 0x0a0b, timestamp: ts });
        for _ in 0..*l {
            let exp = match scheme {
                0 => 10 + j as u8,
                1 => 200 - 7 * j as u8,
                2 => 255 - j as u8,
                _ => 0,
            };
            hops.push(RHop { flags: (j as u8).wrapping_mul(37).wrapping_add(1), exp_time: exp, cons_ingress: 0x0100 * (j as u16 + 1) + 1, cons_egress: 0x0100 * (j as u16 + 1) + 2, mac: [0xA0 + j as u8, 1 + j as u8, 2, 3, 4, 0x50 + (total - j) as u8] });
            j += 1;
        }
    }
    RStdPath { curr_inf: ci, curr_hf: ch, rsv: 0, seg_len, infos, hops }
}

fn a_onehop_cases(thorough: bool) -> Vec<(RInfo, RHop, RHop)> {
    let mut v = vec![];
    let tss: &[u32] = if thorough { &[0, 1_700_000_000, u32::MAX - 86_400, u32::MAX - 86_399, u32::MAX - 338, u32::MAX] } else { &[1_700_000_000, u32::MAX - 338, u32::MAX] };
    for iflags in [1u8, 0, 3, 0xFD] {
        for ts in tss {
            for h1_in in [0u16, 5] {
                for exp1 in [0u8, 63, 255] {
                    for second in 0..4 {
                        let i = RInfo { flags: iflags, rsv: 0, seg_id: 0xA5C3, timestamp: *ts };
                        let h1 = RHop { flags: 0, exp_time: exp1, cons_ingress: h1_in, cons_egress: 0x0102, mac: [0x11, 0x22, 0x33, 0x44, 0x55, 0x66] };
                        let h2 = match second {
                            0 => RHop { flags: 0, exp_time: 0, cons_ingress: 0, cons_egress: 0, mac: [0; 6] }, // unset
                            1 => RHop { flags: 0, exp_time: exp1, cons_ingress: 0x0201, cons_egress: 0, mac: [0x61, 0x62, 0x63, 0x64, 0x65, 0x66] },
                            2 => RHop { flags: 3, exp_time: 7, cons_ingress: 0x0201, cons_egress: 0x0909, mac: [0x71, 0x72, 0x73, 0x74, 0x75, 0x76] },
                            _ => RHop { flags: 0x80, exp_time: 255, cons_ingress: 0, cons_egress: 0x0909, mac: [0x81, 0x82, 0x83, 0x84, 0x85, 0x86] }, // "unset" by ConsIngress, other fields stale
                        };
                        v.push((i, h1, h2));
                    }
                }
            }
        }
    }
    v
}

const FLAGSET: [u8; 5] = [0, 1, 2, 3, 0xFF];

/// Bytes the view constructor must accept for the seg-len triple: meta + one info field per
/// non-zero length + the hop fields, distinct contents.
fn b_std_bytes(lens: [u8; 3], info_flags: &[u8], rsv: u8) -> Vec<u8> {
    let n = lens.iter().filter(|l| **l > 0).count();
    let total: usize = lens.iter().map(|x| *x as usize).sum();
    let infos = (0..n).map(|k| RInfo { flags: info_flags[k], rsv: 0x40 + k as u8, seg_id: 0x2222 * (k as u16 + 1), timestamp: 1_600_000_000 + 77 * k as u32 }).collect();
    let hops = (0..total).map(|j| RHop { flags: FLAGSET[j % 5], exp_time: 3 + 5 * j as u8, cons_ingress: 0x0300 + 2 * j as u16 + 1, cons_egress: 0x0300 + 2 * j as u16 + 2, mac: [j as u8, 0xB1, 0xB2, 0xB3, 0xB4, 0xB5] }).collect();
    RStdPath { curr_inf: 0, curr_hf: 0, rsv, seg_len: lens, infos, hops }.to_bytes()
}

fn replay(file: &std::path::Path) -> ! {
    let v = vpc::read_replay(file);
    let w = &v["witness"];
    println!("replay of class {} : {}", v["class"], v["what"]);
    let input = unhex(w["input"].as_str().unwrap_or(""));
    println!("  part {} op {} input {}", w["part"], w["op"], hex(&input));
    let mut acc = Acc::default();
    match w["part"].as_str() {
        Some("a-std") => match RStdPath::parse(&input) {
            Ok(r) => check_a_std(&r, &mut acc),
            Err(e) => vpc::machinery_failure(&format!("replay input is not a well-formed standard path: {e}")),
        },
        Some("a-onehop") if input.len() == 32 => check_a_onehop(&RInfo::from_bytes(&input[0..8]), &RHop::from_bytes(&input[8..20]), &RHop::from_bytes(&input[20..32]), &mut acc),
        Some("b-std") => check_b_std(&input, &mut acc),
        Some("b-onehop") if input.len() == 32 => check_b_onehop(&input, &mut acc),
        p => vpc::machinery_failure(&format!("unknown part {p:?} in replay")),
    }
    for (k, n) in &acc.outcomes {
        println!("  outcome {k} x{n}");
    }
    if acc.viols.is_empty() {
        println!("  no violation on this input");
    }
    for (c, e) in &acc.viols {
        println!("  VIOLATION [{c}] {}\n    {}", e.what, e.witness);
    }
    std::process::exit(0)
}

pub fn run(args: &vpc::Args) -> ! {
    util::install_panic_hook();
    if let Some(f) = &args.replay {
        replay(f);
    }
    let run = vpc::Run::new(args);
    let thorough = run.tier == vpc::Tier::Thorough;

    // ---- (a) standard
    let maxlen: u8 = if thorough { 4 } else { 3 };
    let mut shapes: Vec<Vec<u8>> = vec![];
    for a in 1..=maxlen {
        shapes.push(vec![a]);
        for b in 1..=maxlen {
            shapes.push(vec![a, b]);
            for c in 1..=maxlen {
                shapes.push(vec![a, b, c]);
            }
        }
    }
    let extras: &[u8] = if thorough { &[0x00, 0x02, 0xFC, 0xFE] } else { &[0x00, 0xFE] };
    let schemes: &[u8] = if thorough { &[0, 1, 2, 3] } else { &[0, 1, 2] };
    let mut a_tasks: Vec<(Vec<u8>, u8, u8, u8)> = vec![];
    for s in &shapes {
        for cons in 0..(1u8 << s.len()) {
            for e in extras {
                for sc in schemes {
                    a_tasks.push((s.clone(), cons, *e, *sc));
                }
            }
        }
    }
    let mut acc = a_tasks
        .par_iter()
        .map(|(s, cons, e, sc)| {
            let mut acc = Acc::default();
            let total: u8 = s.iter().sum();
            for ci in 0..s.len() as u8 {
                for ch in 0..total {
                    let r = a_std_case(s, *cons, *e, *sc, ci, ch);
                    check_a_std(&r, &mut acc);
                    acc.add("a_std_models", 1);
                    acc.sample("a-std", fnv64(&r.to_bytes()), 2, || json!({"part": "a-std", "bytes": hex(&r.to_bytes()), "model": format!("{:?}", m_std(&r))}));
                }
            }
            acc
        })
        .reduce(Acc::default, |mut a, b| {
            a.merge(b);
            a
        });
    // ---- (a) one-hop
    let oh = a_onehop_cases(thorough);
    let acc_oh = oh
        .par_iter()
        .map(|(i, h1, h2)| {
            let mut acc = Acc::default();
            check_a_onehop(i, h1, h2, &mut acc);
            acc.add("a_onehop_models", 1);
            acc.sample("a-onehop", fnv64(&onehop_bytes(i, h1, h2)), 2, || json!({"part": "a-onehop", "bytes": hex(&onehop_bytes(i, h1, h2))}));
            acc
        })
        .reduce(Acc::default, |mut a, b| {
            a.merge(b);
            a
        });
    acc.merge(acc_oh);
    let t_a = run.elapsed_s();

    // ---- (b) standard: every accepted byte string of the stated family
    let mut b_tasks: Vec<([u8; 3], Vec<u8>, u8)> = vec![];
    for a in 0..=3u8 {
        for b in 0..=3u8 {
            for c in 0..=3u8 {
                let n = [a, b, c].iter().filter(|l| **l > 0).count();
                let rsvs: &[u8] = if thorough { &[0, 0x3F] } else { &[0] };
                let combos: Vec<Vec<u8>> = if thorough {
                    let mut v = vec![vec![]];
                    for _ in 0..n {
                        v = v.into_iter().flat_map(|p: Vec<u8>| FLAGSET.iter().map(move |f| p.iter().copied().chain(std::iter::once(*f)).collect::<Vec<u8>>())).collect();
                    }
                    v
                } else {
                    // uniform flags, plus mixed assignments rotating through the set
                    let mut v: Vec<Vec<u8>> = FLAGSET.iter().map(|f| vec![*f; n]).collect();
                    if n > 1 {
                        for s in 0..5 {
                            v.push((0..n).map(|k| FLAGSET[(s + k) % 5]).collect());
                        }
                    }
                    v
                };
                for f in combos {
                    for r in rsvs {
                        b_tasks.push(([a, b, c], f.clone(), *r));
                    }
                }
            }
        }
    }
    let acc_b = b_tasks
        .par_iter()
        .map(|(lens, flags, rsv)| {
            let mut acc = Acc::default();
            let base = b_std_bytes(*lens, flags, *rsv);
            match StandardPathView::try_from_slice(&base) {
                Ok((v, rest)) if rest.is_empty() && v.as_slice().len() == base.len() => {}
                _ => {
                    acc.outcome("b-std/constructor/rejected-or-partial");
                    acc.viol("std-view-constructor-size-differs-from-reference", (0, 0), || "the view constructor does not accept exactly meta + one info field per non-zero seg len + hop fields".into(), || json!({"input": hex(&base)}));
                    return acc;
                }
            }
            for ptr in 0..=255u8 {
                let mut b = base.clone();
                b[0] = ptr;
                check_b_std(&b, &mut acc);
                acc.add("b_std_byte_strings", 1);
                acc.sample("b-std", fnv64(&b), 2, || json!({"part": "b-std", "bytes": hex(&b)}));
            }
            acc
        })
        .reduce(Acc::default, |mut a, b| {
            a.merge(b);
            a
        });
    acc.merge(acc_b);
    // ---- (b) one-hop
    let mut ohb: Vec<Vec<u8>> = vec![];
    for iflags in FLAGSET {
        for h1_in in [0u16, 5] {
            for h2_in in [0u16, 9, 0xFFFF] {
                for (e1, e2) in [(0u8, 0u8), (0, 255), (255, 0), (255, 255), (1, 1), (63, 200)] {
                    for ts in [0u32, 1000, u32::MAX - 86_400, u32::MAX - 86_399, u32::MAX - 337, u32::MAX] {
                        for hf in [0u8, 0xFF] {
                            let i = RInfo { flags: iflags, rsv: 0x7e, seg_id: 0x0f0f, timestamp: ts };
                            let h1 = RHop { flags: hf, exp_time: e1, cons_ingress: h1_in, cons_egress: 3, mac: [1, 2, 3, 4, 5, 6] };
                            let h2 = RHop { flags: hf, exp_time: e2, cons_ingress: h2_in, cons_egress: 0, mac: [9, 8, 7, 6, 5, 4] };
                            ohb.push(onehop_bytes(&i, &h1, &h2));
                        }
                    }
                }
            }
        }
    }
    let acc_ob = ohb
        .par_iter()
        .map(|b| {
            let mut acc = Acc::default();
            check_b_onehop(b, &mut acc);
            acc.add("b_onehop_byte_strings", 1);
            acc
        })
        .reduce(Acc::default, |mut a, b| {
            a.merge(b);
            a
        });
    acc.merge(acc_ob);

    let evaluations = acc.get("evaluations");
    let distinct = acc.distinct();
    let counters = json!(acc.counters);
    acc.flush(&run);
    run.finish(
        "exploration",
        json!({
            "evaluations": evaluations,
            "distinct_nontrivial": distinct,
            "rule": "one evaluation = one operation (try_reverse x1/x2, expiration, counts/segments, interface queries, set_second_hop, to_model / encode conversions, each at view, model, ScionDpPathView/DpPath and ScionPath level) on one enumerated input. Counted as distinct AND non-trivial (measured: FNV-64 of (operation, variant, input bytes), de-duplicated): in (a) every evaluation (all models have >= 1 hop field and pairwise distinct field values, results are compared between view, model and reference); in (b) an evaluation whose operation returned Err or panicked, changed the bytes of a path with >= 1 hop field, or returned a non-empty answer - evaluations on hop-less paths that return Ok/None/0 are trivial",
            "exhaustive": true,
            "bound": format!(
                "(a) every StandardPath model with 1-3 segments x 1-{maxlen} hops, every cons-dir assignment, extra info flags {extras:?}, value schemes {schemes:?} (position of the minimum ExpTime, saturating timestamps), EVERY (CurrINF, CurrHF) the encoder accepts = {} models; {} one-hop models (second hop unset / set / set with flags / stale, timestamps up to u32::MAX); ScionPath with and without metadata, src==dst and src!=dst. (b) every byte string of the family seg lens {{0..3}}^3 x all 256 pointer bytes x info flags from {{0,1,2,3,0xFF}} ({}) x meta RSV {} = {} byte strings, {} one-hop byte strings",
                acc.get("a_std_models"),
                acc.get("a_onehop_models"),
                if thorough { "every per-segment combination" } else { "uniform + 5 rotating mixed assignments" },
                if thorough { "{0,0x3F}" } else { "{0}" },
                acc.get("b_std_byte_strings"),
                acc.get("b_onehop_byte_strings"),
            ),
            "counters": counters,
            "wall_s_part_a": (t_a * 10.0).round() / 10.0,
        }),
        &[
            "reference = vpc::refwire (spec-level codec incl. reversed()) and, for one-hop paths, scionproto's semantics (reverse = convert to the 2-hop standard path positioned at hop 2, then reverse; set second hop = {ConsIngress, ExpTime of hop 1, flags 0} + MAC with the advanced SegID)",
            "expiry reference: min over segments of saturating(timestamp + floor((min ExpTime + 1) * 337.5 s))",
            "interface queries exist on the view side only (ScionDpPathViewExt, ScionPath); they are compared with the reference and with each other across reversal",
            "ScionPath reversal is compared with ScionPath::new(dst, src, reference-reversed bytes, independently reversed metadata, None)",
            "built with overflow checks and debug assertions on: an arithmetic overflow shows as overflow-panic@ (it wraps silently in a plain release build), a debug_assert as debug-assert@ (not a production panic)",
            "no reversal / query API exists at packet level in sciparse, so 'packet' in the property text is covered through the path it carries only",
        ],
    )
}
