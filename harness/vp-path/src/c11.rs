//! C11 - hop-field authentication and per-AS advance are a correct monotone state machine.
//!
//! States are the byte strings of a standard path; transitions are the REAL
//! `StandardPathView::advance_ingress_with_validator(HopMacValidator{key}, from_internal)` and
//! `advance_egress_with_validator(HopMacValidator{key})`. Authentic paths are built with the
//! REFERENCE MAC chain (`vpc::refmac`, written from the specification) and the reference codec
//! (`vpc::refwire`), so "authentic" is defined independently of the crate.
//!
//! Parts:
//!  (1)+(2) explicit-state exploration: from every start state (all seg-len triples in {0..3}^3,
//!        every cons-dir assignment, peering flags, hop flags, every CurrINF 0..3 x CurrHF
//!        0..hops+1) every sequence over {ingress-int, ingress-ext, egress} x {right key, wrong
//!        key} up to depth 2*hops+2. Identical byte strings are merged (the step functions only see
//!        the bytes and their arguments); for every newly discovered state its history is replayed
//!        from the start bytes on a fresh buffer and must reproduce the state (this validates the
//!        merge and makes every discovered state the end of one explicitly executed trace).
//!        Oracles: Err => bytes unchanged; Ok => pointers monotone, egress => CurrHF+1, pointer
//!        stays on a hop field, hence #forwardings <= hops-1 on every sequence.
//!  (3)   canonical walk with the right keys validates at every hop, forward, and after the
//!        crate's own `try_reverse`, backward; all cons-dir assignments.
//!  (4)   every single-bit flip (and every pair) of an authenticated field of an authentic path
//!        (both travel directions) makes validation fail at or before the owning AS.
//!  (5)   one-hop paths: what sciparse offers (OneHopPath::new, set_second_hop on model and view,
//!        try_into_reversed_standard_path) produces MACs equal to the reference MAC and a path
//!        that the standard advance validates in both directions.
use std::collections::BTreeMap;

use rayon::prelude::*;
use sciparse::{
    core::{encode::WireEncode, view::View},
    dataplane_path::{
        onehop::{model::OneHopPath, view::OneHopPathView},
        standard::{
            mac::ForwardingKey,
            routing::{AdvanceError, EgressValidateResult, HopMacValidator, IngressAdvanceAction, IngressValidateResult},
            view::StandardPathView,
        },
    },
};
use vpc::{
    Value, hex, json, refmac,
    refwire::{RHop, RInfo, RStdPath},
    unhex,
};

use crate::util::{self, Acc};

const WRONG_KEY: ForwardingKey = [0xEE; 16];

fn as_key(a: usize) -> ForwardingKey {
    let mut k = [0u8; 16];
    for (i, b) in k.iter_mut().enumerate() {
        *b = (a as u8).wrapping_mul(29).wrapping_add((i as u8).wrapping_mul(13)).wrapping_add(0x41);
    }
    k
}

// ------------------------------------------------------------------------------------------
// transitions on the real code
// ------------------------------------------------------------------------------------------

#[derive(Clone, Copy, PartialEq, Eq, Debug)]
pub enum Op {
    IngInt,
    IngExt,
    Egr,
}
const OPS: [Op; 3] = [Op::IngInt, Op::IngExt, Op::Egr];
impl Op {
    fn name(self) -> &'static str {
        match self {
            Op::IngInt => "ingress-int",
            Op::IngExt => "ingress-ext",
            Op::Egr => "egress",
        }
    }
    fn parse(s: &str) -> Option<Op> {
        OPS.into_iter().find(|o| o.name() == s)
    }
    fn idx(self) -> usize {
        self as usize
    }
}

/// Outcome of one advance call.
#[derive(Clone, Copy, PartialEq, Eq, Debug)]
pub enum Res {
    IngOkContinue,
    IngOkLocal,
    IngVfContinue,
    IngVfLocal,
    EgrOk,
    EgrVf,
    ErrHopOob,
    ErrInfoOob,
    ErrSegIdx,
    ErrStateSingleHop,
    ErrStateSegEnd,
    ErrStateOther,
    Panic,
}
const NRES: usize = 13;
const RES_ALL: [Res; NRES] = [
    Res::IngOkContinue,
    Res::IngOkLocal,
    Res::IngVfContinue,
    Res::IngVfLocal,
    Res::EgrOk,
    Res::EgrVf,
    Res::ErrHopOob,
    Res::ErrInfoOob,
    Res::ErrSegIdx,
    Res::ErrStateSingleHop,
    Res::ErrStateSegEnd,
    Res::ErrStateOther,
    Res::Panic,
];
impl Res {
    fn name(self) -> &'static str {
        match self {
            Res::IngOkContinue => "Ok(validated,ContinueEgress)",
            Res::IngOkLocal => "Ok(validated,ForwardLocal)",
            Res::IngVfContinue => "Ok(ValidationFailed,ContinueEgress)",
            Res::IngVfLocal => "Ok(ValidationFailed,ForwardLocal)",
            Res::EgrOk => "Ok(validated)",
            Res::EgrVf => "Ok(ValidationFailed)",
            Res::ErrHopOob => "Err(HopOutOfBounds)",
            Res::ErrInfoOob => "Err(InfoOutOfBounds)",
            Res::ErrSegIdx => "Err(InvalidSegmentIndex)",
            Res::ErrStateSingleHop => "Err(InvalidPathState:single-hop-segment)",
            Res::ErrStateSegEnd => "Err(InvalidPathState:segment-end-at-egress)",
            Res::ErrStateOther => "Err(InvalidPathState:other)",
            Res::Panic => "panic",
        }
    }
    fn is_err(self) -> bool {
        matches!(self, Res::ErrHopOob | Res::ErrInfoOob | Res::ErrSegIdx | Res::ErrStateSingleHop | Res::ErrStateSegEnd | Res::ErrStateOther | Res::Panic)
    }
    /// advanced AND validated
    fn validated(self) -> bool {
        matches!(self, Res::IngOkContinue | Res::IngOkLocal | Res::EgrOk)
    }
    fn delivered(self) -> bool {
        matches!(self, Res::IngOkLocal | Res::IngVfLocal)
    }
}

fn err_kind(e: &AdvanceError) -> Res {
    match e {
        AdvanceError::HopOutOfBounds(_) => Res::ErrHopOob,
        AdvanceError::InfoOutOfBounds(_) => Res::ErrInfoOob,
        AdvanceError::InvalidSegmentIndex { .. } => Res::ErrSegIdx,
        AdvanceError::InvalidPathState(m) if m.contains("single hop") => Res::ErrStateSingleHop,
        AdvanceError::InvalidPathState(m) if m.contains("segment end") => Res::ErrStateSegEnd,
        AdvanceError::InvalidPathState(_) => Res::ErrStateOther,
    }
}

/// One call into the subject. `buf` must be exactly one path (checked by the caller once).
fn apply(buf: &mut [u8], op: Op, key: &ForwardingKey) -> Res {
    let r = vpc::catch(|| {
        let (v, _rest) = match StandardPathView::try_from_mut_slice(buf) {
            Ok(x) => x,
            Err(e) => vpc::machinery_failure(&format!("C11: state no longer accepted by the view constructor: {e}")),
        };
        match op {
            Op::IngInt | Op::IngExt => match v.advance_ingress_with_validator(HopMacValidator { key: *key }, op == Op::IngInt) {
                Ok(IngressValidateResult::Ok(o)) => match o.action {
                    IngressAdvanceAction::ContinueEgress { .. } => Res::IngOkContinue,
                    IngressAdvanceAction::ForwardLocal => Res::IngOkLocal,
                },
                Ok(IngressValidateResult::ValidationFailed(o, _)) => match o.action {
                    IngressAdvanceAction::ContinueEgress { .. } => Res::IngVfContinue,
                    IngressAdvanceAction::ForwardLocal => Res::IngVfLocal,
                },
                Err(e) => err_kind(&e),
            },
            Op::Egr => match v.advance_egress_with_validator(HopMacValidator { key: *key }) {
                Ok(EgressValidateResult::Ok(_)) => Res::EgrOk,
                Ok(EgressValidateResult::ValidationFailed(..)) => Res::EgrVf,
                Err(e) => err_kind(&e),
            },
        }
    });
    r.unwrap_or(Res::Panic)
}

fn curr_inf(b: &[u8]) -> u8 {
    b[0] >> 6
}
fn curr_hf(b: &[u8]) -> u8 {
    b[0] & 0x3f
}

// ------------------------------------------------------------------------------------------
// reference construction of authentic paths
// ------------------------------------------------------------------------------------------

#[derive(Clone, Debug)]
struct Layout {
    shape: [u8; 3],
    /// the non-zero segments in order: (first hop index, length)
    segs: Vec<(usize, usize)>,
    hops: usize,
    /// travel ordinal of the AS that owns hop j (the last hop of a segment and the first hop of
    /// the next one belong to the same AS)
    ord_of_hop: Vec<usize>,
    nas: usize,
    /// contiguous non-zero lengths, each >= 2: the shapes the specification allows
    well_formed: bool,
}

fn layout(shape: [u8; 3]) -> Layout {
    let mut segs = vec![];
    let mut start = 0usize;
    for l in shape {
        if l > 0 {
            segs.push((start, l as usize));
            start += l as usize;
        }
    }
    let hops = start;
    let mut ord_of_hop = vec![0usize; hops];
    for (k, (s, l)) in segs.iter().enumerate() {
        for p in 0..*l {
            ord_of_hop[s + p] = (s + p) - k;
        }
    }
    let nas = ord_of_hop.last().map(|x| x + 1).unwrap_or(0);
    let n = segs.len();
    let prefix = shape.iter().take(n).all(|l| *l > 0) && shape.iter().skip(n).all(|l| *l == 0);
    let well_formed = n >= 1 && prefix && segs.iter().all(|(_, l)| *l >= 2);
    Layout { shape, segs, hops, ord_of_hop, nas, well_formed }
}

/// Authentic path at its start position (CurrINF = CurrHF = 0), MACs from the reference chain.
/// `cons_mask` bit k = ConsDir of the k-th (non-empty) segment, `peer_mask` likewise the peering
/// flag (MAC chain stays the plain one: peering paths only take part in oracles (1),(2)).
/// `key_of_ord(o)` = forwarding key of the o-th AS in travel order.
fn build_path(lay: &Layout, cons_mask: u8, peer_mask: u8, hop_flags: u8, key_of_ord: &dyn Fn(usize) -> ForwardingKey) -> RStdPath {
    let mut infos = vec![];
    let mut hops: Vec<RHop> = vec![];
    for (k, (start, len)) in lay.segs.iter().enumerate() {
        let cons = cons_mask >> k & 1 == 1;
        let ts: u32 = 0x6553_F100 + 0x1000 * k as u32;
        let seg0: u16 = [0x1357u16, 0x9bdf, 0x2468][k];
        let mut seg_hops: Vec<RHop> = (0..*len)
            .map(|p| {
                let j = start + p;
                let i = if cons { p } else { len - 1 - p }; // position in construction order
                RHop {
                    flags: hop_flags,
                    exp_time: 20 + 3 * j as u8,
                    cons_ingress: if i == 0 { 0 } else { 0x0100 * (j as u16 + 1) + 0x11 },
                    cons_egress: if i == len - 1 { 0 } else { 0x0100 * (j as u16 + 1) + 0x22 },
                    mac: [0; 6],
                }
            })
            .collect();
        // chain in construction order
        let mut beta = seg0;
        let mut beta_last = seg0;
        for i in 0..*len {
            let p = if cons { i } else { len - 1 - i };
            let key = key_of_ord(lay.ord_of_hop[start + p]);
            let h = &mut seg_hops[p];
            h.mac = refmac::hop_mac(&key, beta, ts, h.exp_time, h.cons_ingress, h.cons_egress);
            beta_last = beta;
            beta = refmac::beta_step(beta, &h.mac);
        }
        // SegID carried by a packet at the start of the segment: beta_0 in construction direction,
        // the beta of the last-constructed hop against it.
        let seg_id = if cons { seg0 } else { beta_last };
        infos.push(RInfo { flags: (cons as u8) | ((peer_mask >> k & 1) << 1), rsv: 0, seg_id, timestamp: ts });
        hops.extend(seg_hops);
    }
    RStdPath { curr_inf: 0, curr_hf: 0, rsv: 0, seg_len: lay.shape, infos, hops }
}

fn info_off(k: usize) -> usize {
    4 + 8 * k
}
fn hop_off(lay: &Layout, j: usize) -> usize {
    4 + 8 * lay.segs.len() + 12 * j
}

/// (byte offset, bit, field, owner = travel ordinal of the AS that must detect the change at the latest)
fn authenticated_bits(lay: &Layout) -> Vec<(usize, u8, &'static str, usize)> {
    let mut v = vec![];
    for (k, (start, _)) in lay.segs.iter().enumerate() {
        let owner = lay.ord_of_hop[*start];
        for byte in 2..8 {
            for bit in 0..8 {
                v.push((info_off(k) + byte, bit, if byte < 4 { "segid" } else { "timestamp" }, owner));
            }
        }
    }
    for j in 0..lay.hops {
        for byte in 1..12 {
            let f = match byte {
                1 => "exptime",
                2 | 3 => "consingress",
                4 | 5 => "consegress",
                _ => "mac",
            };
            for bit in 0..8 {
                v.push((hop_off(lay, j) + byte, bit, f, lay.ord_of_hop[j]));
            }
        }
    }
    v
}
/// bits that are NOT in the MAC input (negative control, informational only)
fn unauthenticated_bits(lay: &Layout) -> Vec<(usize, u8)> {
    let mut v = vec![];
    for k in 0..lay.segs.len() {
        for bit in 2..8 {
            v.push((info_off(k), bit)); // reserved info flags
        }
        for bit in 0..8 {
            v.push((info_off(k) + 1, bit)); // info RSV
        }
    }
    for j in 0..lay.hops {
        for bit in 0..8 {
            v.push((hop_off(lay, j), bit)); // hop flags (router alerts, reserved)
        }
    }
    v
}

// ------------------------------------------------------------------------------------------
// (1)+(2) explicit-state exploration
// ------------------------------------------------------------------------------------------

struct Node {
    bytes: Vec<u8>,
    parent: usize,
    via: (Op, bool),
    depth: usize,
}

fn right_key(lay: &Layout, b: &[u8]) -> ForwardingKey {
    let ch = curr_hf(b) as usize;
    as_key(if ch < lay.hops { lay.ord_of_hop[ch] } else { 0 })
}

fn history(nodes: &[Node], mut i: usize) -> Vec<(Op, bool)> {
    let mut h = vec![];
    while i != 0 {
        h.push(nodes[i].via);
        i = nodes[i].parent;
    }
    h.reverse();
    h
}

fn ops_json(lay: &Layout, start: &[u8], ops: &[(Op, bool)]) -> Value {
    // keys written out, so that a replay needs nothing but the file
    let mut b = start.to_vec();
    let mut out = vec![];
    for (op, right) in ops {
        let key = if *right { right_key(lay, &b) } else { WRONG_KEY };
        out.push(json!({"op": op.name(), "key": hex(&key), "key_kind": if *right {"right"} else {"wrong"}}));
        apply(&mut b, *op, &key);
    }
    Value::Array(out)
}

struct Counts {
    cls: [[[u64; NRES]; 2]; 3],
}

fn explore(lay: &Layout, start: &[u8], depth_bound: usize, acc: &mut Acc, cnt: &mut Counts, states: &mut Vec<u64>) {
    let ch_start = curr_hf(start) as usize;
    let mut nodes: Vec<Node> = vec![Node { bytes: start.to_vec(), parent: 0, via: (Op::Egr, false), depth: 0 }];
    let mut index: BTreeMap<Vec<u8>, usize> = BTreeMap::new();
    index.insert(start.to_vec(), 0);
    let mut i = 0usize;
    let mut transitions = 0u64;
    let mut replays = 0u64;
    let mut saturated = true;
    let mut max_fwd = 0usize;
    while i < nodes.len() {
        if nodes[i].depth >= depth_bound {
            // the frontier at the bound is not expanded
            saturated = false;
            i += 1;
            continue;
        }
        let b0 = nodes[i].bytes.clone();
        let (ci0, ch0) = (curr_inf(&b0), curr_hf(&b0));
        for op in OPS {
            for right in [true, false] {
                let key = if right { right_key(lay, &b0) } else { WRONG_KEY };
                let mut b1 = b0.clone();
                let res = apply(&mut b1, op, &key);
                transitions += 1;
                cnt.cls[op.idx()][right as usize][res as usize] += 1;
                let depth_i = nodes[i].depth;
                let wkey = || (b0.len() as u64 * 64 + depth_i as u64, vpc::fnv64(&b0) ^ (op.idx() as u64 * 2 + right as u64));
                let witness = |nodes: &[Node]| {
                    let mut h = history(nodes, i);
                    h.push((op, right));
                    json!({"kind": "sequence", "shape": lay.shape, "start": hex(start), "ops": ops_json(lay, start, &h),
                           "state_before_last_op": hex(&b0), "state_after_last_op": hex(&b1), "last_result": res.name()})
                };
                if res == Res::Panic {
                    let class = util::panic_class();
                    acc.viol(&class, wkey(), || format!("{} panicked: {}", op.name(), util::last_panic().1), || witness(&nodes));
                    continue;
                }
                if res.is_err() {
                    // oracle (1)
                    if b1 != b0 {
                        acc.viol(
                            &format!("err-mutates-path:{}:{}", op.name(), res.name()),
                            wkey(),
                            || format!("{} returned {} but the path bytes changed", op.name(), res.name()),
                            || witness(&nodes),
                        );
                    }
                    continue;
                }
                // oracle (2)
                let (ci1, ch1) = (curr_inf(&b1), curr_hf(&b1));
                let mut bad: Option<&'static str> = None;
                if ch1 < ch0 || ci1 < ci0 {
                    bad = Some("pointer-moved-backwards");
                } else if b1[1..4] != b0[1..4] {
                    bad = Some("advance-changed-segment-lengths");
                } else if ch1 as usize >= lay.hops {
                    bad = Some("pointer-left-the-path");
                } else if op == Op::Egr && !(ch1 == ch0 + 1 && ci1 == ci0) {
                    bad = Some("egress-pointer-not-plus-one");
                } else if op != Op::Egr && !((ch1 == ch0 && ci1 == ci0) || (ch1 == ch0 + 1 && ci1 == ci0 + 1)) {
                    bad = Some("ingress-pointer-jump");
                }
                if let Some(c) = bad {
                    acc.viol(
                        &format!("{c}:{}", op.name()),
                        wkey(),
                        || format!("{} returned {}: (CurrINF,CurrHF) ({ci0},{ch0}) -> ({ci1},{ch1}), hops {}", op.name(), res.name(), lay.hops),
                        || witness(&nodes),
                    );
                }
                max_fwd = max_fwd.max((ch1 as usize).saturating_sub(ch_start));
                if b1 != b0 && !index.contains_key(&b1) {
                    let id = nodes.len();
                    index.insert(b1.clone(), id);
                    nodes.push(Node { bytes: b1.clone(), parent: i, via: (op, right), depth: nodes[i].depth + 1 });
                    // replay the whole history on a fresh buffer: must reproduce the state
                    let h = history(&nodes, id);
                    let mut rb = start.to_vec();
                    for (o, r) in &h {
                        let k = if *r { right_key(lay, &rb) } else { WRONG_KEY };
                        apply(&mut rb, *o, &k);
                        transitions += 1;
                    }
                    replays += 1;
                    if rb != b1 {
                        acc.viol(
                            "replayed-history-gives-different-bytes",
                            wkey(),
                            || "replaying the op history from the start bytes did not reproduce the state (step functions are not a function of bytes+arguments)".into(),
                            || witness(&nodes),
                        );
                    }
                }
            }
        }
        i += 1;
    }
    acc.max("max_forwardings_on_any_sequence", max_fwd as u64);
    acc.max("max_forwardings_beyond_hop_count", max_fwd.saturating_sub(lay.hops) as u64);
    acc.add("bfs_transitions", transitions);
    acc.add("bfs_histories_replayed", replays);
    acc.add("bfs_start_states", 1);
    if saturated {
        acc.add("bfs_start_states_saturated_below_bound", 1);
    }
    acc.max("max_states_from_one_start", nodes.len() as u64);
    acc.max("max_depth_reached", nodes.iter().map(|n| n.depth).max().unwrap_or(0) as u64);
    if nodes.len() > 1 {
        acc.sample("explored-history", (1u64 << 32) - nodes.len() as u64, 2, || {
            let last = nodes.len() - 1;
            json!({"kind": "explored-history", "shape": lay.shape, "start": hex(start), "ops": ops_json(lay, start, &history(&nodes, last)), "end": hex(&nodes[last].bytes), "states_from_this_start": nodes.len()})
        });
    }
    states.extend(nodes.iter().map(|n| vpc::fnv64(&n.bytes)));
}

// ------------------------------------------------------------------------------------------
// (3)+(4) canonical walk
// ------------------------------------------------------------------------------------------

#[derive(Clone, Debug)]
struct WalkStep {
    op: Op,
    ord: usize,
    res: Res,
}

/// First hop entered from inside the AS, every other from outside; egress after every ingress
/// that says ContinueEgress. Continues through ValidationFailed (the API documents the path as
/// advanced), stops at delivery, Err, or after 2*hops+2 calls.
fn walk(lay_hops: usize, ord_of_hop: &[usize], key_of_ord: &dyn Fn(usize) -> ForwardingKey, buf: &mut [u8]) -> (Vec<WalkStep>, bool) {
    let mut steps = vec![];
    let mut op = Op::IngInt;
    for _ in 0..(2 * lay_hops + 2) {
        let ch = curr_hf(buf) as usize;
        let ord = if ch < lay_hops { ord_of_hop[ch] } else { usize::MAX };
        let key = if ch < lay_hops { key_of_ord(ord) } else { WRONG_KEY };
        let res = apply(buf, op, &key);
        steps.push(WalkStep { op, ord, res });
        if res.is_err() {
            return (steps, false);
        }
        if res.delivered() {
            return (steps, true);
        }
        op = if op == Op::Egr { Op::IngExt } else { Op::Egr };
    }
    (steps, false)
}

fn steps_json(steps: &[WalkStep]) -> Value {
    Value::Array(steps.iter().map(|s| json!({"op": s.op.name(), "as_ordinal": if s.ord == usize::MAX { Value::Null } else { json!(s.ord) }, "result": s.res.name()})).collect())
}

fn first_failure(steps: &[WalkStep]) -> Option<usize> {
    steps.iter().find(|s| !s.res.validated()).map(|s| s.ord)
}

/// Oracle (3) on one authentic path; returns the bytes after (walk, try_reverse) = the authentic
/// path of the opposite travel direction at its start position, if everything went well.
fn check_authentic_walk(lay: &Layout, cons_mask: u8, acc: &mut Acc) -> Option<(Vec<u8>, Vec<u8>)> {
    let fwd_key = |o: usize| as_key(o);
    let start = build_path(lay, cons_mask, 0, 0, &fwd_key).to_bytes();
    let wkey = (start.len() as u64, cons_mask as u64);
    let mut b = start.clone();
    let (steps, delivered) = walk(lay.hops, &lay.ord_of_hop, &fwd_key, &mut b);
    acc.add("walk_calls", steps.len() as u64);
    acc.add("walks", 1);
    let ingresses = steps.iter().filter(|s| s.op != Op::Egr).count();
    let all_valid = steps.iter().all(|s| s.res.validated());
    let wit = |dir: &str, shape: [u8; 3], st: &[u8], steps: &[WalkStep]| json!({"kind": "walk", "shape": shape, "cons_mask": cons_mask, "direction": dir, "start": hex(st), "steps": steps_json(steps)});
    if !all_valid || !delivered || curr_hf(&b) as usize != lay.hops - 1 || ingresses != lay.nas {
        let bad = steps.iter().find(|s| !s.res.validated());
        let class = match bad {
            Some(s) if s.res.is_err() => format!("authentic-walk-aborted:forward:{}:{}", s.op.name(), s.res.name()),
            Some(s) => format!("authentic-walk-validation-failed:forward:{}", s.op.name()),
            None => "authentic-walk-wrong-end:forward".to_string(),
        };
        acc.viol(&class, wkey, || format!("authentic path (reference MAC chain, right per-AS keys) does not verify on the forward walk; shape {:?} cons_mask {cons_mask:#b}", lay.shape), || wit("forward", lay.shape, &start, &steps));
        acc.outcome("walk/forward/failed");
        return None;
    }
    acc.outcome("walk/forward/validated-at-every-hop");
    acc.sample("walk", (1u64 << 32) - (start.len() as u64 * 16 + cons_mask as u64), 2, || wit("forward", lay.shape, &start, &steps));
    // reversal by the crate, then the walk back with the ASes in opposite order
    let before_rev = b.clone();
    let rev = vpc::catch(|| StandardPathView::try_from_mut_slice(&mut b).unwrap().0.try_reverse().is_ok());
    match rev {
        Ok(true) => {}
        Ok(false) | Err(_) => {
            acc.viol("authentic-walk-reverse-refused", wkey, || "try_reverse failed on a fully walked authentic path".into(), || wit("forward", lay.shape, &start, &steps));
            return None;
        }
    }
    let ref_rev = RStdPath::parse(&before_rev).map(|p| p.reversed().to_bytes());
    acc.outcome(if ref_rev.as_deref() == Ok(&b[..]) { "walk/reverse/bytes==reference-reversal" } else { "walk/reverse/bytes!=reference-reversal" });
    // the reversed path, built independently: mirrored shape, toggled cons dirs, same ASes
    let rshape = {
        let n = lay.segs.len();
        let mut s = [0u8; 3];
        for k in 0..n {
            s[k] = lay.shape[n - 1 - k];
        }
        s
    };
    let rlay = layout(rshape);
    let nas = lay.nas;
    let rev_key = move |o: usize| as_key(nas - 1 - o);
    let rstart = b.clone();
    let (rsteps, rdelivered) = walk(rlay.hops, &rlay.ord_of_hop, &rev_key, &mut b);
    acc.add("walk_calls", rsteps.len() as u64);
    acc.add("walks", 1);
    let ring = rsteps.iter().filter(|s| s.op != Op::Egr).count();
    if !rsteps.iter().all(|s| s.res.validated()) || !rdelivered || curr_hf(&b) as usize != rlay.hops - 1 || ring != rlay.nas {
        let bad = rsteps.iter().find(|s| !s.res.validated());
        let class = match bad {
            Some(s) if s.res.is_err() => format!("authentic-walk-aborted:backward:{}:{}", s.op.name(), s.res.name()),
            Some(s) => format!("authentic-walk-validation-failed:backward:{}", s.op.name()),
            None => "authentic-walk-wrong-end:backward".to_string(),
        };
        acc.viol(&class, wkey, || format!("authentic path verified forward, was reversed with try_reverse, and does not verify on the walk back; shape {:?} cons_mask {cons_mask:#b}", lay.shape), || wit("backward", rshape, &rstart, &rsteps));
        acc.outcome("walk/backward/failed");
        return None;
    }
    acc.outcome("walk/backward/validated-at-every-hop");
    Some((start, rstart))
}

/// Oracle (4) on one authentic path at its start position.
fn check_tamper(lay: &Layout, ord_of_hop: &[usize], key_of_ord: &(dyn Fn(usize) -> ForwardingKey + Sync), start: &[u8], dir: &'static str, pairs: bool, acc: &mut Acc) {
    let bits = authenticated_bits(lay);
    let judge = |acc: &mut Acc, flips: &[(usize, u8, &'static str, usize)]| {
        let mut b = start.to_vec();
        for (off, bit, _, _) in flips {
            b[*off] ^= 1 << bit;
        }
        let tampered = b.clone();
        let owner = flips.iter().map(|f| f.3).min().unwrap();
        let (steps, _) = walk(lay.hops, ord_of_hop, key_of_ord, &mut b);
        acc.add("walk_calls", steps.len() as u64);
        acc.add(if flips.len() == 1 { "tamper_single_walks" } else { "tamper_pair_walks" }, 1);
        let fields: Vec<&str> = flips.iter().map(|f| f.2).collect();
        let tag = if flips.len() == 1 { "tamper" } else { "tamper2" };
        let wkey = (start.len() as u64 * 4 + flips.len() as u64, (flips[0].0 as u64) << 8 | flips[0].1 as u64);
        let wit = |steps: &[WalkStep]| {
            json!({"kind": "tamper", "shape": lay.shape, "direction": dir, "authentic": hex(start),
                   "flips": flips.iter().map(|f| json!({"byte": f.0, "bit": f.1, "field": f.2, "owner_as_ordinal": f.3})).collect::<Vec<_>>(),
                   "tampered": hex(&tampered), "steps": steps_json(steps)})
        };
        match first_failure(&steps) {
            None => {
                acc.outcome(&format!("{tag}/undetected"));
                acc.viol(&format!("{tag}-undetected:{}", fields.join("+")), wkey, || format!("flipping {fields:?} bit(s) of an authentic path is not detected at any hop of the walk"), || wit(&steps));
            }
            Some(o) if o > owner => {
                acc.outcome(&format!("{tag}/detected-late"));
                acc.viol(&format!("{tag}-detected-late:{}", fields.join("+")), wkey, || format!("flipping {fields:?} bit(s) is first detected at AS #{o}, later than the owning AS #{owner}"), || wit(&steps));
            }
            Some(o) if o == owner => acc.outcome(&format!("{tag}/detected-at-owner-AS")),
            Some(_) => acc.outcome(&format!("{tag}/detected-before-owner-AS")),
        }
    };
    for f in &bits {
        judge(acc, &[*f]);
    }
    if pairs {
        for x in 0..bits.len() {
            for y in x + 1..bits.len() {
                judge(acc, &[bits[x], bits[y]]);
            }
        }
    }
    // negative control (informational): bits outside the MAC input
    for (off, bit) in unauthenticated_bits(lay) {
        let mut b = start.to_vec();
        b[off] ^= 1 << bit;
        let (steps, d) = walk(lay.hops, ord_of_hop, key_of_ord, &mut b);
        acc.add("walk_calls", steps.len() as u64);
        acc.add("control_walks", 1);
        acc.outcome(if d && steps.iter().all(|s| s.res.validated()) { "control-unauthenticated-bit/still-validates" } else { "control-unauthenticated-bit/fails" });
    }
}

// ------------------------------------------------------------------------------------------
// (5) one-hop paths (the sciparse part; pocketscion's OneHopRoutingLogic is not reachable here)
// ------------------------------------------------------------------------------------------

fn std_from_onehop(onehop: &[u8]) -> Vec<u8> {
    // PathMeta: CurrINF 0, CurrHF 0, Seg0Len 2
    let mut v = ((2u32) << 12).to_be_bytes().to_vec();
    v.extend_from_slice(onehop);
    v
}

fn check_onehop(acc: &mut Acc) {
    let lay = layout([2, 0, 0]);
    let k1 = as_key(0);
    let k2 = as_key(1);
    let fwd = |o: usize| as_key(o);
    let bwd = |o: usize| as_key(1 - o);
    for egress in [1u16, 0x1234] {
        for ingress in [2u16, 0xBEEF] {
            for seg_id in [0u16, 0xA5C3] {
                for ts in [1u32, 0x6000_0000] {
                    for exp in [0u8, 63, 255] {
                        for advanced in [false, true] {
                            for via_view in [false, true] {
                                acc.add("onehop_cases", 1);
                                let wkey = (exp as u64, (egress as u64) << 32 | (ingress as u64) << 16 | seg_id as u64);
                                let params = json!({"kind": "onehop", "egress": egress, "ingress": ingress, "seg_id": seg_id, "timestamp": ts, "exp": exp, "segment_id_was_advanced": advanced, "via_view": via_view});
                                let r = vpc::catch(|| {
                                    let mut m = OneHopPath::new(egress, seg_id, ts, k1, exp);
                                    let mac1 = refmac::hop_mac(&k1, seg_id, ts, exp, 0, egress);
                                    let ok1 = m.hops[0].mac.0 == mac1 && m.info.segment_id == seg_id && m.info.flags.bits() == 1;
                                    let beta1 = refmac::beta_step(seg_id, &mac1);
                                    if advanced {
                                        m.info.segment_id = beta1; // what the egress router of AS 1 does
                                    }
                                    let bytes: Vec<u8> = if via_view {
                                        let mut b = m.try_encode_to_vec().unwrap();
                                        let (v, _) = OneHopPathView::try_from_mut_slice(&mut b).unwrap();
                                        v.set_second_hop(ingress, k2, advanced);
                                        b
                                    } else {
                                        m.set_second_hop(ingress, k2, advanced);
                                        m.try_encode_to_vec().unwrap()
                                    };
                                    let h2 = RHop::from_bytes(&bytes[20..32]);
                                    let ok2 = h2.cons_ingress == ingress && h2.cons_egress == 0 && h2.mac == refmac::hop_mac(&k2, beta1, ts, h2.exp_time, ingress, 0);
                                    (ok1, ok2, bytes, beta1)
                                });
                                let (ok1, ok2, bytes, beta1) = match r {
                                    Ok(x) => x,
                                    Err(m) => {
                                        acc.viol(&util::panic_class(), wkey, || format!("one-hop construction panicked: {m}"), || params.clone());
                                        continue;
                                    }
                                };
                                acc.outcome(if ok1 { "onehop/first-hop-mac==reference" } else { "onehop/first-hop-mac!=reference" });
                                acc.outcome(if ok2 { "onehop/second-hop-mac==reference" } else { "onehop/second-hop-mac!=reference" });
                                if !ok1 {
                                    acc.viol("onehop-first-hop-mac-not-authentic", wkey, || "OneHopPath::new: MAC of the first hop differs from the reference MAC".into(), || params.clone());
                                }
                                if !ok2 {
                                    acc.viol(if via_view { "onehop-view-second-hop-mac-not-authentic" } else { "onehop-model-second-hop-mac-not-authentic" }, wkey, || "set_second_hop: the second hop is not (ingress,0) with the reference MAC over its own fields and beta_1".into(), || params.clone());
                                }
                                // forward walk of the equivalent standard path (SegID at its start value)
                                let mut fw = bytes.clone();
                                fw[2..4].copy_from_slice(&seg_id.to_be_bytes());
                                let mut sp = std_from_onehop(&fw);
                                let start = sp.clone();
                                let (steps, d) = walk(2, &lay.ord_of_hop, &fwd, &mut sp);
                                acc.add("walk_calls", steps.len() as u64);
                                acc.add("walks", 1);
                                let okf = d && steps.iter().all(|s| s.res.validated());
                                acc.outcome(if okf { "onehop/forward-walk-validates" } else { "onehop/forward-walk-fails" });
                                if !okf {
                                    acc.viol("onehop-forward-walk-fails", wkey, || "completed one-hop path does not verify hop by hop as the equivalent 2-hop standard path".into(), || json!({"params": params, "kind": "walk", "start": hex(&start), "steps": steps_json(&steps)}));
                                    continue;
                                }
                                // model reversal into a standard path (SegID must be the advanced one), walk back
                                let mut adv = bytes.clone();
                                adv[2..4].copy_from_slice(&beta1.to_be_bytes());
                                let r = vpc::catch(|| {
                                    let (v, _) = OneHopPathView::try_from_slice(&adv).unwrap();
                                    let m = sciparse::core::convert::ToModel::to_model(v);
                                    m.try_into_reversed_standard_path().map(|p| p.try_encode_to_vec().unwrap()).map_err(|_| ())
                                });
                                match r {
                                    Ok(Ok(mut rb)) => {
                                        let rstart = rb.clone();
                                        let (steps, d) = walk(2, &lay.ord_of_hop, &bwd, &mut rb);
                                        acc.add("walk_calls", steps.len() as u64);
                                        acc.add("walks", 1);
                                        let okb = d && steps.iter().all(|s| s.res.validated());
                                        acc.outcome(if okb { "onehop/reversed-standard-walk-validates" } else { "onehop/reversed-standard-walk-fails" });
                                        if !okb {
                                            acc.viol("onehop-reversed-standard-walk-fails", wkey, || "try_into_reversed_standard_path of a completed one-hop path does not verify on the way back".into(), || json!({"params": params, "kind": "walk", "start": hex(&rstart), "steps": steps_json(&steps)}));
                                        }
                                    }
                                    Ok(Err(())) => acc.viol("onehop-reversal-refused", wkey, || "try_into_reversed_standard_path refused a completed one-hop path".into(), || params.clone()),
                                    Err(m) => acc.viol(&util::panic_class(), wkey, || format!("one-hop reversal panicked: {m}"), || params.clone()),
                                }
                            }
                        }
                    }
                }
            }
        }
    }
}

// ------------------------------------------------------------------------------------------
// replay
// ------------------------------------------------------------------------------------------

fn replay(file: &std::path::Path) -> ! {
    let v = vpc::read_replay(file);
    let w = &v["witness"];
    println!("replay of class {} : {}", v["class"], v["what"]);
    let run_steps = |start: &str, ops: &Vec<Value>| {
        let mut b = unhex(start);
        println!("  start  {}", hex(&b));
        for o in ops {
            let op = Op::parse(o["op"].as_str().unwrap_or("")).unwrap_or_else(|| vpc::machinery_failure("bad op in replay"));
            let key: ForwardingKey = unhex(o["key"].as_str().unwrap_or("")).try_into().unwrap_or_else(|_| vpc::machinery_failure("bad key in replay"));
            let before = b.clone();
            let res = apply(&mut b, op, &key);
            println!("  {:<11} key {} -> {:<40} (CurrINF,CurrHF) ({},{})->({},{}) bytes {}", op.name(), &hex(&key)[..8], res.name(), curr_inf(&before), curr_hf(&before), curr_inf(&b), curr_hf(&b), if before == b { "unchanged".to_string() } else { format!("changed -> {}", hex(&b)) });
            if res.is_err() && before != b {
                println!("  ^^ Err(_) with modified path bytes: oracle (1) violated");
            }
        }
    };
    match w["kind"].as_str() {
        Some("sequence") => run_steps(w["start"].as_str().unwrap(), w["ops"].as_array().unwrap()),
        Some("tamper") | Some("walk") => {
            let shape: Vec<u8> = w["shape"].as_array().map(|a| a.iter().map(|x| x.as_u64().unwrap() as u8).collect()).unwrap_or(vec![2, 0, 0]);
            let lay = layout([shape[0], shape[1], shape[2]]);
            let start = w.get("tampered").or(w.get("start")).and_then(|x| x.as_str()).unwrap();
            let backward = w["direction"].as_str() == Some("backward");
            let nas = lay.nas;
            let key = move |o: usize| if backward { as_key(nas - 1 - o) } else { as_key(o) };
            let mut b = unhex(start);
            println!("  start  {}", hex(&b));
            let (steps, delivered) = walk(lay.hops, &lay.ord_of_hop, &key, &mut b);
            for s in &steps {
                println!("  {:<11} at AS #{:<3} -> {}", s.op.name(), s.ord, s.res.name());
            }
            println!("  delivered: {delivered}; first failing AS ordinal: {:?}", first_failure(&steps));
        }
        _ => println!("  (witness kind {:?}: parameters only, re-run the check to re-execute)\n  {}", w["kind"], w),
    }
    std::process::exit(0)
}

// ------------------------------------------------------------------------------------------

pub fn run(args: &vpc::Args) -> ! {
    util::install_panic_hook();
    if let Some(f) = &args.replay {
        replay(f);
    }
    let run = vpc::Run::new(args);
    let thorough = run.tier == vpc::Tier::Thorough;

    // ---- task list for (1)+(2)
    // quick:    seg lens {0..3}^3, hop flags {0,0xFF}, peering none/all
    // thorough: seg lens {0..3}^3 with hop flags {0,1,2,3,0xFF} and every peering mask, plus every
    //           triple of {0..4}^3 that contains a 4 with hop flags {0,0xFF}, peering none/all
    let full_flags: &[u8] = &[0x00, 0x01, 0x02, 0x03, 0xFF];
    let small_flags: &[u8] = &[0x00, 0xFF];
    let maxlen: u8 = std::env::var("VERIF_C11_MAXLEN").ok().and_then(|s| s.parse().ok()).unwrap_or(if thorough { 4 } else { 3 });
    let mut tasks: Vec<([u8; 3], u8, u8, u8)> = vec![];
    for a in 0..=maxlen {
        for b in 0..=maxlen {
            for c in 0..=maxlen {
                let big = a > 3 || b > 3 || c > 3;
                let rich = thorough && !big;
                let n = [a, b, c].iter().filter(|x| **x > 0).count() as u32;
                for cons in 0..(1u8 << n) {
                    let mut peers: Vec<u8> = if rich { (0..(1u8 << n)).collect() } else { vec![0, (1u8 << n) - 1] };
                    peers.dedup();
                    for peer in peers {
                        for hf in if rich { full_flags } else { small_flags } {
                            tasks.push(([a, b, c], cons, peer, *hf));
                        }
                    }
                }
            }
        }
    }
    // big shapes first (better load balance; results do not depend on the order)
    tasks.sort_by_key(|t| std::cmp::Reverse((t.0.iter().map(|x| *x as u32).sum::<u32>(), t.3)));
    let total_cnt = std::sync::Mutex::new(Counts { cls: [[[0; NRES]; 2]; 3] });
    let mut acc = tasks
        .par_iter()
        .map(|(shape, cons, peer, hf)| {
            let mut acc = Acc::default();
            let mut cnt = Counts { cls: [[[0; NRES]; 2]; 3] };
            let lay = layout(*shape);
            let base = build_path(&lay, *cons, *peer, *hf, &|o| as_key(o)).to_bytes();
            // the view constructor must accept exactly these bytes
            match StandardPathView::try_from_slice(&base) {
                Ok((v, rest)) if rest.is_empty() && v.as_slice().len() == base.len() => {}
                _ => {
                    acc.outcome("start-shape/rejected-by-view-constructor");
                    return acc;
                }
            }
            acc.outcome(if lay.well_formed { "start-shape/well-formed" } else { "start-shape/malformed-but-accepted" });
            let mut states: Vec<u64> = vec![];
            let depth = 2 * lay.hops + 2;
            for ci in 0..4u8 {
                for ch in 0..=((lay.hops + 1).min(63) as u8) {
                    let mut start = base.clone();
                    start[0] = ci << 6 | ch;
                    explore(&lay, &start, depth, &mut acc, &mut cnt, &mut states);
                }
            }
            states.sort_unstable();
            states.dedup();
            acc.hashes = states;
            let mut t = total_cnt.lock().unwrap();
            for o in 0..3 {
                for k in 0..2 {
                    for r in 0..NRES {
                        t.cls[o][k][r] += cnt.cls[o][k][r];
                    }
                }
            }
            acc
        })
        .reduce(Acc::default, |mut a, b| {
            a.merge(b);
            a
        });
    {
        let t = total_cnt.lock().unwrap();
        for op in OPS {
            for k in 0..2 {
                for r in RES_ALL {
                    let n = t.cls[op.idx()][k][r as usize];
                    if n > 0 {
                        acc.outcome_n(&format!("{}/{}/{}", op.name(), if k == 1 { "right-key" } else { "wrong-key" }, r.name()), n);
                    }
                }
            }
        }
    }
    let t_bfs = run.elapsed_s();

    // ---- (3)+(4): well-formed shapes, every cons-dir assignment, both travel directions
    let mut wf: Vec<([u8; 3], u8)> = vec![];
    let lens: &[u8] = if thorough { &[2, 3, 4] } else { &[2, 3] };
    let lens0: Vec<u8> = std::iter::once(0u8).chain(lens.iter().copied()).collect();
    for a in lens {
        for b in &lens0 {
            for c in &lens0 {
                if *b == 0 && *c != 0 {
                    continue;
                }
                let n = [*a, *b, *c].iter().filter(|x| **x > 0).count() as u32;
                for cons in 0..(1u8 << n) {
                    wf.push(([*a, *b, *c], cons));
                }
            }
        }
    }
    wf.sort_by_key(|t| std::cmp::Reverse(t.0.iter().map(|x| *x as u32).sum::<u32>()));
    let pair_limit_hops = if thorough { 9 } else { 4 };
    let acc2 = wf
        .par_iter()
        .map(|(shape, cons)| {
            let mut acc = Acc::default();
            let lay = layout(*shape);
            if let Some((fstart, rstart)) = check_authentic_walk(&lay, *cons, &mut acc) {
                let pairs = lay.hops <= pair_limit_hops && (thorough || lay.segs.iter().all(|s| s.1 <= 2));
                check_tamper(&lay, &lay.ord_of_hop, &|o| as_key(o), &fstart, "forward", pairs, &mut acc);
                let n = lay.segs.len();
                let mut rs = [0u8; 3];
                for k in 0..n {
                    rs[k] = lay.shape[n - 1 - k];
                }
                let rlay = layout(rs);
                let nas = lay.nas;
                check_tamper(&rlay, &rlay.ord_of_hop, &move |o| as_key(nas - 1 - o), &rstart, "backward", pairs, &mut acc);
                acc.add("authentic_paths", 2);
                acc.add(if pairs { "authentic_paths_with_all_pairs" } else { "authentic_paths_single_flips_only" }, 2);
            }
            acc
        })
        .reduce(Acc::default, |mut a, b| {
            a.merge(b);
            a
        });
    acc.merge(acc2);
    let mut acc5 = Acc::default();
    check_onehop(&mut acc5);
    acc.merge(acc5);

    let states = acc.distinct();
    let transitions = acc.get("bfs_transitions") + acc.get("walk_calls");
    let traces = acc.get("bfs_histories_replayed") + acc.get("walks") + acc.get("tamper_single_walks") + acc.get("tamper_pair_walks") + acc.get("control_walks");
    let counters = json!(acc.counters);
    let fwd_excess = acc.get("max_forwardings_beyond_hop_count");
    if fwd_excess > 0 {
        // cannot happen when "pointer-left-the-path" did not fire; kept as the direct statement of the property
        acc.viol("more-forwardings-than-hop-fields", (0, 0), || "a sequence forwarded the packet more often than it has hop fields".into(), || Value::Null);
    }
    acc.flush(&run);
    let bound = format!(
        "(1)+(2): {} x every cons-dir assignment x CurrINF 0..3 x CurrHF 0..hops+1 = {} start states, every op sequence over 3 ops x 2 keys up to depth 2*hops+2 (merged on identical bytes; {} start states saturate below the bound, i.e. are closed under ALL longer sequences too); (3): all {} (well-formed shape, cons-dir assignment) pairs with 1-3 segments x {} hops, forward walk + try_reverse + walk back; (4): every single-bit flip of ExpTime/ConsIngress/ConsEgress/MAC/SegID/Timestamp on all of them in both travel directions, every PAIR of such bits for {}; (5) 192 one-hop constructions",
        if thorough {
            "all seg-len triples in {0..3}^3 x all peering masks x hop flags {0,1,2,3,0xFF} and all triples of {0..4}^3 containing a 4 x peering none/all x hop flags {0,0xFF}"
        } else {
            "all 64 seg-len triples in {0..3}^3 x peering none/all x hop flags {0,0xFF}"
        },
        acc.get("bfs_start_states"),
        acc.get("bfs_start_states_saturated_below_bound"),
        wf.len(),
        if thorough { "2-4" } else { "2-3" },
        if thorough { "every shape with <= 9 hop fields" } else { "shapes with <= 2 segments x 2 hops" },
    );
    run.finish(
        "model_checking",
        json!({
            "states": states,
            "transitions": transitions,
            "traces_validated_against_impl": traces,
            "traces_rule": "explicitly executed end-to-end histories: one replay from the start bytes per discovered (start state, state) pair + every canonical / tampered / control walk; the merged exploration additionally covers every op sequence up to the depth bound because a step only depends on (bytes, op, key) - validated by those replays",
            "exhaustive": true,
            "bound": bound,
            "counters": counters,
            "wall_s_exploration": (t_bfs * 10.0).round() / 10.0,
        }),
        &[
            "authentic = MACs produced by the reference chain vpc::refmac (AES-CMAC over 0|beta|ts|0|exp|in|eg|0, truncated to 6 bytes, beta_{i+1} = beta_i xor MAC_i[0..2]); SegID at a segment start = beta_0 in construction direction, beta of the last-constructed hop against it",
            "the AS that owns the last hop of a segment and the first hop of the next is one AS (one key); per-AS keys are distinct, the wrong key differs from all",
            "'processed' in 'at most as many times as it has hop fields' is counted as forwardings = increments of CurrHF; repeated ingress calls at one hop without egress are not counted (they never move the pointer)",
            "states merged on identical path bytes; merge validated by replaying every discovered state's history from the start bytes",
            "tamper detection is required at or before the AS owning the touched hop field (info-field bits: first AS of the segment in travel order); a 48-bit CMAC collision would be reported as a violation (none expected at this scale)",
            "peering-flagged paths take part in (1),(2) only; pocketscion's OneHopRoutingLogic is not driven (vp-path does not link pocketscion) - covered for one-hop: OneHopPath::new, set_second_hop (model+view), try_into_reversed_standard_path + standard advance",
        ],
    )
}
